"""Term extraction: a syntax-directed walk over loop-free (or loop-summarised)
function bodies that substitutes reaching definitions, resolves names, attrs
constructors, factories and properties through the program model, folds tests
on enum members, and returns for every syntactic path the guard list, the
returned/raised term and the ordered effect list.

No repository code is executed; no path feasibility is decided; no solver.
The result is a finite table `guards -> term` per function that rule engines
compare with oracle tables.
"""
from __future__ import annotations

import ast
import math
from dataclasses import dataclass, field as dfield
from typing import Any, Callable, Dict, List, Optional, Tuple

from .model import AnalysisError, ClassInfo, FunctionInfo, Model, ModuleInfo


# --------------------------------------------------------------------- terms
class Term:
    __slots__ = ()


@dataclass(frozen=True)
class Const(Term):
    value: Any

    def __repr__(self):
        return repr(self.value)

    def __hash__(self):
        return hash((type(self.value).__name__, repr(self.value)))

    def __eq__(self, other):
        return isinstance(other, Const) and type(self.value) is type(other.value) and repr(self.value) == repr(other.value)


@dataclass(frozen=True)
class Sym(Term):
    name: str
    cls: Optional[str] = None  # static class name if known

    def __repr__(self):
        return f'${self.name}'


@dataclass(frozen=True)
class ClassRef(Term):
    name: str

    def __repr__(self):
        return self.name


@dataclass(frozen=True)
class FuncRef(Term):
    key: str  # FunctionInfo.key

    def __repr__(self):
        return f'&{self.key.split(":")[-1]}'


@dataclass(frozen=True)
class Ext(Term):
    name: str

    def __repr__(self):
        return f'ext:{self.name}'


@dataclass(frozen=True)
class EnumMember(Term):
    cls: str
    name: str

    def __repr__(self):
        return f'{self.cls}.{self.name}'


@dataclass(frozen=True)
class Attr(Term):
    base: Term
    name: str

    def __repr__(self):
        return f'{self.base!r}.{self.name}'


@dataclass(frozen=True)
class BoundMethod(Term):
    recv: Term
    key: str  # FunctionInfo.key
    name: str

    def __repr__(self):
        return f'{self.recv!r}.{self.name}'


@dataclass(frozen=True)
class Call(Term):
    func: Term
    args: Tuple[Term, ...] = ()
    kwargs: Tuple[Tuple[str, Term], ...] = ()

    def __repr__(self):
        parts = [repr(a) for a in self.args] + [f'{k}={v!r}' for k, v in self.kwargs]
        return f'{self.func!r}({", ".join(parts)})'

    def kw(self, name: str) -> Optional[Term]:
        for k, v in self.kwargs:
            if k == name:
                return v
        return None


@dataclass(frozen=True)
class New(Term):
    """attrs constructor call with arguments bound to fields (in field order)."""
    cls: str
    fields: Tuple[Tuple[str, Term], ...]

    def get(self, name: str) -> Optional[Term]:
        for k, v in self.fields:
            if k == name:
                return v
        return None

    def __repr__(self):
        return f'{self.cls}<{", ".join(f"{k}={v!r}" for k, v in self.fields)}>'


@dataclass(frozen=True)
class Default(Term):
    """the field's default (value expression shown when simple)"""
    cls: str
    field: str

    def __repr__(self):
        return f'default({self.cls}.{self.field})'


@dataclass(frozen=True)
class TupleT(Term):
    items: Tuple[Term, ...]
    kind: str = 'tuple'  # tuple | list | set

    def __repr__(self):
        o, c = {'tuple': '()', 'list': '[]', 'set': '{}'}[self.kind]
        return f'{o}{", ".join(map(repr, self.items))}{c}'


@dataclass(frozen=True)
class DictT(Term):
    items: Tuple[Tuple[Term, Term], ...]

    def __repr__(self):
        return '{' + ', '.join(f'{k!r}: {v!r}' for k, v in self.items) + '}'


@dataclass(frozen=True)
class Sub(Term):
    base: Term
    index: Term

    def __repr__(self):
        return f'{self.base!r}[{self.index!r}]'


@dataclass(frozen=True)
class SliceT(Term):
    lo: Optional[Term]
    hi: Optional[Term]
    step: Optional[Term] = None

    def __repr__(self):
        return f'{self.lo if self.lo is not None else ""}:{self.hi if self.hi is not None else ""}'


@dataclass(frozen=True)
class Op(Term):
    op: str
    args: Tuple[Term, ...]

    def __repr__(self):
        if len(self.args) == 1:
            return f'({self.op} {self.args[0]!r})'
        return '(' + f' {self.op} '.join(map(repr, self.args)) + ')'


@dataclass(frozen=True)
class Ite(Term):
    test: Term
    a: Term
    b: Term

    def __repr__(self):
        return f'({self.a!r} if {self.test!r} else {self.b!r})'


@dataclass(frozen=True)
class Fmt(Term):
    value: Term
    conv: str = ''
    spec: str = ''

    def __repr__(self):
        return '{' + repr(self.value) + (f'!{self.conv}' if self.conv else '') + (f':{self.spec}' if self.spec else '') + '}'


@dataclass(frozen=True)
class Template(Term):
    parts: Tuple[Term, ...]  # Const(str) | Fmt

    def __repr__(self):
        return 'f"' + ''.join(p.value if isinstance(p, Const) else repr(p) for p in self.parts) + '"'


@dataclass(frozen=True)
class Comp(Term):
    kind: str  # gen | list | set | dict
    elt: Term
    gens: Tuple[Tuple[str, Term, Tuple[Term, ...]], ...]  # (target source, iter, ifs)

    def __repr__(self):
        g = ' '.join(f'for {t} in {i!r}' + ''.join(f' if {c!r}' for c in ifs) for t, i, ifs in self.gens)
        return f'<{self.elt!r} {g}>'


@dataclass(frozen=True)
class Lam(Term):
    params: Tuple[str, ...]
    body: Term
    closure: Any = dfield(default=None, compare=False, hash=False, repr=False)  # (FunctionDef-like node, env, module, fi)

    def __repr__(self):
        return f'(lambda {",".join(self.params)}: {self.body!r})'


@dataclass(frozen=True)
class Opaque(Term):
    tag: str

    def __repr__(self):
        return f'?{self.tag}'


@dataclass(frozen=True)
class GlobalVal(Term):
    """a module-level mutable container, kept by identity (module, name) with its initial value"""
    module: str
    name: str
    value: Term

    def __repr__(self):
        return f'global:{self.module}.{self.name}'


@dataclass(frozen=True)
class Raises(Term):
    exc: Term

    def __repr__(self):
        return f'raise {self.exc!r}'


@dataclass(frozen=True)
class Loop(Term):
    """summary of a for/while statement recorded as an effect"""
    target: str
    iter: Term
    effects: Tuple[Term, ...]
    raises: Tuple[Tuple[Tuple[Tuple[Term, bool], ...], Term], ...] = ()
    returns: Tuple[Tuple[Tuple[Tuple[Term, bool], ...], Term], ...] = ()
    # one entry per syntactic path through the body that reaches its end (or a
    # continue/break): (guards, flow, ((name, value at end of path), ...), effects)
    paths: Tuple[Tuple[Tuple[Tuple[Term, bool], ...], str, Tuple[Tuple[str, Term], ...], Tuple[Term, ...]], ...] = ()
    # values, on entry to the loop, of the variables that the body assigns (accumulators)
    inits: Tuple[Tuple[str, Term], ...] = dfield(default=(), compare=False)
    # while loops: the test as evaluated before a later iteration (over ?loopvar:x), `iter` being its value on entry
    cond: Optional[Term] = dfield(default=None, compare=False)

    def __repr__(self):
        return f'loop({self.target} in {self.iter!r}: {list(self.effects)!r} raises={list(self.raises)!r})'


@dataclass(frozen=True)
class Store(Term):
    """attribute / subscript store or augmented store recorded as an effect"""
    target: Term
    value: Term

    def __repr__(self):
        return f'{self.target!r} := {self.value!r}'


Guard = Tuple[Term, bool]


@dataclass
class Outcome:
    kind: str  # 'return' | 'raise' | 'fall'
    value: Optional[Term]
    guards: Tuple[Guard, ...]
    effects: Tuple[Term, ...]
    asserts: Tuple[Term, ...] = ()
    lineno: int = 0
    env: Optional[Dict[str, Term]] = None
    trace: Tuple[Term, ...] = ()

    def __repr__(self):
        g = ' & '.join(('' if pol else 'not ') + repr(t) for t, pol in self.guards)
        return f'[{g}] {self.kind} {self.value!r}'


def mk_ite(test: Term, a: Term, b: Term, boolean: bool = False) -> Term:
    """a conditional whose branches agree is that value; in a truth-value position (boolean=True) a conditional
    between truth constants is a connective"""
    if a == b:
        return a
    if not boolean:
        return Ite(test, a, b)
    ta = a.value if isinstance(a, Const) and isinstance(a.value, bool) else None
    tb = b.value if isinstance(b, Const) and isinstance(b.value, bool) else None
    if ta is True and tb is False:
        return test
    if ta is False and tb is True:
        return Op('not', (test,))
    if ta is True:
        return Op('or', (test, b))
    if ta is False:
        return Op('and', (Op('not', (test,)), b))
    if tb is True:
        return Op('or', (Op('not', (test,)), a))
    if tb is False:
        return Op('and', (test, a))
    return Ite(test, a, b)


def eval_bool(t: Term, known: Dict[Term, bool]) -> Optional[bool]:
    """truth value of t given the truth of some tests (None: not determined)"""
    if t in known:
        return known[t]
    if isinstance(t, Const) and isinstance(t.value, bool):
        return t.value
    if isinstance(t, Op) and t.op == 'not' and len(t.args) == 1:
        v = eval_bool(t.args[0], known)
        return None if v is None else not v
    if isinstance(t, Op) and t.op in ('and', 'or'):
        vs = [eval_bool(a, known) for a in t.args]
        if t.op == 'and':
            if any(v is False for v in vs):
                return False
            return True if all(v is True for v in vs) else None
        if any(v is True for v in vs):
            return True
        return False if all(v is False for v in vs) else None
    if isinstance(t, Ite):
        c = eval_bool(t.test, known)
        if c is not None:
            return eval_bool(t.a if c else t.b, known)
    return None


TRUE = Const(True)
FALSE = Const(False)
NONE = Const(None)


def is_const(t: Term, v=...) -> bool:
    if not isinstance(t, Const):
        return False
    return True if v is ... else (t.value is v or (type(t.value) is type(v) and t.value == v))


def walk(t: Term):
    """pre-order iteration over a term"""
    yield t
    if isinstance(t, (Const, Sym, ClassRef, FuncRef, Ext, EnumMember, Opaque, Default)):
        return
    if isinstance(t, Attr):
        yield from walk(t.base)
    elif isinstance(t, BoundMethod):
        yield from walk(t.recv)
    elif isinstance(t, Call):
        yield from walk(t.func)
        for a in t.args:
            yield from walk(a)
        for _, v in t.kwargs:
            yield from walk(v)
    elif isinstance(t, New):
        for _, v in t.fields:
            yield from walk(v)
    elif isinstance(t, TupleT):
        for a in t.items:
            yield from walk(a)
    elif isinstance(t, DictT):
        for k, v in t.items:
            yield from walk(k)
            yield from walk(v)
    elif isinstance(t, Sub):
        yield from walk(t.base)
        yield from walk(t.index)
    elif isinstance(t, SliceT):
        for a in (t.lo, t.hi, t.step):
            if a is not None:
                yield from walk(a)
    elif isinstance(t, Op):
        for a in t.args:
            yield from walk(a)
    elif isinstance(t, Ite):
        yield from walk(t.test)
        yield from walk(t.a)
        yield from walk(t.b)
    elif isinstance(t, Fmt):
        yield from walk(t.value)
    elif isinstance(t, Template):
        for p in t.parts:
            yield from walk(p)
    elif isinstance(t, Comp):
        yield from walk(t.elt)
        for _, i, ifs in t.gens:
            yield from walk(i)
            for c in ifs:
                yield from walk(c)
    elif isinstance(t, Lam):
        yield from walk(t.body)
    elif isinstance(t, Raises):
        yield from walk(t.exc)
    elif isinstance(t, GlobalVal):
        yield from walk(t.value)
    elif isinstance(t, Loop):
        yield from walk(t.iter)
        for e in t.effects:
            yield from walk(e)
        for _, e in t.raises:
            yield from walk(e)
        for _, e in t.returns:
            yield from walk(e)
        for _, _, binds, effs in t.paths:
            for _, v in binds:
                yield from walk(v)
    elif isinstance(t, Store):
        yield from walk(t.target)
        yield from walk(t.value)


def call_name_of(c: 'Call') -> Optional[str]:
    if isinstance(c.func, Attr):
        return c.func.name
    if isinstance(c.func, BoundMethod):
        return c.func.name
    return None


def _field_key(rec: Term, name: str) -> str:
    return f'@field:{rec!r}.{name}'


def expand_ites(t: Term, limit: int = 64) -> List[Tuple[Tuple[Guard, ...], Term]]:
    """all alternatives of a term with Ite nodes anywhere inside constructor / tuple / call arguments"""
    tests: List[Term] = []
    for x in walk(t):
        if isinstance(x, Ite) and x.test not in tests:
            tests.append(x.test)
    if not tests:
        return alternatives(t)
    if 2 ** len(tests) > limit:
        # many tests are usually one if / elif chain: follow the structure, which yields one alternative per arm
        res = _expand_structural(t, 4 * limit)
        return res if res is not None else alternatives(t)
    import itertools as _it
    out = []
    for choice in _it.product((True, False), repeat=len(tests)):
        m = dict(zip(tests, choice))

        used: List[Term] = []

        def pick(u: Term) -> Term:
            if isinstance(u, Ite):
                if u.test not in used:
                    used.append(u.test)
                return pick(u.a if m[u.test] else u.b)
            if isinstance(u, New):
                return New(u.cls, tuple((k, pick(v)) for k, v in u.fields))
            if isinstance(u, TupleT):
                return TupleT(tuple(pick(a) for a in u.items), u.kind)
            if isinstance(u, Call):
                return Call(pick(u.func), tuple(pick(a) for a in u.args), tuple((k, pick(v)) for k, v in u.kwargs))
            if isinstance(u, Attr):
                return Attr(pick(u.base), u.name)
            if isinstance(u, Op):
                return Op(u.op, tuple(pick(a) for a in u.args))
            return u
        leaf = pick(t)
        # only the tests that were consulted on the way to this leaf guard it
        gs = tuple((tt, m[tt]) for tt in tests if tt in used)
        out.append((gs, leaf))
    uniq = []
    for g, l in out:
        if (g, l) not in uniq:
            uniq.append((g, l))
    return uniq


def _expand_structural(t: Term, limit: int) -> Optional[List[Tuple[Tuple[Guard, ...], Term]]]:
    """expand_ites by recursion over the term: an Ite contributes its test with one polarity per arm, siblings are
    combined when they agree on the tests they share; None when there are more than `limit` alternatives"""
    def merge(g1, g2):
        m = dict(g1)
        for tt, pol in g2:
            if m.get(tt, pol) != pol:
                return None
            m[tt] = pol
        return tuple(m.items())

    def combine(parts: List[List[Tuple[Tuple[Guard, ...], Term]]]):
        acc: List[Tuple[Tuple[Guard, ...], Tuple[Term, ...]]] = [((), ())]
        for alts in parts:
            nxt = []
            for g, items in acc:
                for g2, leaf in alts:
                    mg = merge(g, g2)
                    if mg is not None:
                        nxt.append((mg, items + (leaf,)))
            if len(nxt) > limit:
                raise OverflowError
            acc = nxt
        return acc

    def ex(u: Term) -> List[Tuple[Tuple[Guard, ...], Term]]:
        if isinstance(u, Ite):
            out = []
            for pol, arm in ((True, u.a), (False, u.b)):
                for g, leaf in ex(arm):
                    mg = merge(((u.test, pol),), g)
                    if mg is not None:
                        out.append((mg, leaf))
            if len(out) > limit:
                raise OverflowError
            return out
        if isinstance(u, New):
            return [(g, New(u.cls, tuple((k, v) for (k, _), v in zip(u.fields, items)))) for g, items in combine([ex(v) for _, v in u.fields])]
        if isinstance(u, TupleT):
            return [(g, TupleT(items, u.kind)) for g, items in combine([ex(a) for a in u.items])]
        if isinstance(u, Call):
            n = len(u.args)
            return [(g, Call(items[0], items[1:1 + n], tuple((k, v) for (k, _), v in zip(u.kwargs, items[1 + n:]))))
                    for g, items in combine([ex(u.func)] + [ex(a) for a in u.args] + [ex(v) for _, v in u.kwargs])]
        if isinstance(u, Attr):
            return [(g, Attr(b, u.name)) for g, b in ex(u.base)]
        if isinstance(u, Op):
            return [(g, Op(u.op, items)) for g, items in combine([ex(a) for a in u.args])]
        return [((), u)]
    try:
        return ex(t)
    except OverflowError:
        return None


def expand_outcomes(outs: List['Outcome'], limit: int = 64) -> List['Outcome']:
    """return-outcomes whose value holds conditional sub-terms (from inlined helpers that choose between constructions)
    are split into one outcome per choice, the choice recorded as extra guards"""
    res: List[Outcome] = []
    for o in outs:
        if o.kind != 'return' or o.value is None or not any(isinstance(x, Ite) for x in walk(o.value)):
            res.append(o)
            continue
        for gs, leaf in expand_ites(o.value, limit):
            # drop choices that contradict the path's own guards
            known = {t: pol for t, pol in norm_guards(o.guards)}
            if any(known.get(t, pol) != pol for t, pol in norm_guards(gs)):
                continue
            chosen = {t: pol for t, pol in norm_guards(gs)}
            if any(eval_bool(t, chosen) not in (None, pol) for t, pol in norm_guards(o.guards)):
                continue   # the path's own guards rule this choice out
            exc = next((x for x in walk(leaf) if isinstance(x, Raises)), None)
            if exc is not None:
                # the chosen alternative raises while the value is being computed (a failed table lookup, ...)
                res.append(Outcome('raise', exc.exc, o.guards + tuple(gs), o.effects, o.asserts, o.lineno, o.env, o.trace))
                continue
            res.append(Outcome(o.kind, leaf, o.guards + tuple(gs), o.effects, o.asserts, o.lineno, o.env, o.trace))
    return res


def alternatives(t: Term, guards: Tuple[Guard, ...] = ()) -> List[Tuple[Tuple[Guard, ...], Term]]:
    """flatten top-level Ite chains into (guards, leaf) alternatives"""
    if isinstance(t, Ite):
        return alternatives(t.a, guards + ((t.test, True),)) + alternatives(t.b, guards + ((t.test, False),))
    return [(guards, t)]


# ----------------------------------------------------------------- evaluator
_BUILTINS = {
    'len', 'tuple', 'list', 'set', 'dict', 'str', 'int', 'float', 'bool', 'abs', 'min', 'max', 'sum', 'any', 'all',
    'isinstance', 'getattr', 'setattr', 'hasattr', 'zip', 'reversed', 'range', 'repr', 'type', 'object', 'print',
    'sorted', 'enumerate', 'iter', 'next', 'map', 'filter', 'vars', 'super', 'id', 'hash', 'complex', 'frozenset', 'property',
    'ValueError', 'TypeError', 'KeyError', 'IndexError', 'AssertionError', 'NotImplementedError', 'Exception',
    'ZeroDivisionError', 'SyntaxError', 'KeyboardInterrupt', 'AttributeError', 'RuntimeError', 'StopIteration',
    'UnboundLocalError', 'NameError', 'OSError', 'FileNotFoundError', 'BaseException', 'ArithmeticError',
    'LookupError', 'OverflowError', 'True', 'False', 'None', 'NotImplemented', 'Ellipsis',
}

_CMP = {
    ast.Eq: '==', ast.NotEq: '!=', ast.Lt: '<', ast.LtE: '<=', ast.Gt: '>', ast.GtE: '>=',
    ast.Is: 'is', ast.IsNot: 'is not', ast.In: 'in', ast.NotIn: 'not in',
}
_BIN = {
    ast.Add: '+', ast.Sub: '-', ast.Mult: '*', ast.Div: '/', ast.FloorDiv: '//', ast.Mod: '%', ast.Pow: '**',
    ast.BitAnd: '&', ast.BitOr: '|', ast.BitXor: '^', ast.LShift: '<<', ast.RShift: '>>', ast.MatMult: '@',
}
_UN = {ast.Not: 'not', ast.USub: 'neg', ast.UAdd: 'pos', ast.Invert: '~'}


class _State:
    __slots__ = ('env', 'guards', 'effects', 'asserts', 'trace')

    def __init__(self, env=None, guards=(), effects=(), asserts=(), trace=()):
        self.env: Dict[str, Term] = dict(env or {})
        self.guards: Tuple[Guard, ...] = tuple(guards)
        self.effects: Tuple[Term, ...] = tuple(effects)
        self.asserts: Tuple[Term, ...] = tuple(asserts)
        self.trace: Tuple[Term, ...] = tuple(trace)  # package calls left un-inlined, in evaluation order

    def fork(self) -> '_State':
        return _State(self.env, self.guards, self.effects, self.asserts, self.trace)


class _Flow(Exception):
    pass


# API methods of the AST classes whose contract is checked by their own rule (M3: but, M5: cast) and which every other
# rule uses as an opaque fact
OPAQUE_METHODS = {'but', 'cast', 'simple_events'}     # API of the AST classes that the rules know by name: never looked through at a call


def default_inline(fi: FunctionInfo, depth: int) -> bool:
    """inline small, loop-free helpers only (factories, properties, one-liners)"""
    if depth > 6:
        return False
    if fi.name in OPAQUE_METHODS and fi.cls is not None and any(b.name == 'HplAstObject' for b in fi.cls.mro()):
        return False
    if any((isinstance(d, ast.Name) and d.id == 'singledispatch') or (isinstance(d, ast.Attribute) and d.attr == 'singledispatch') for d in fi.node.decorator_list):
        return False    # a dispatcher is all its registered implementations, not the few lines of its default
    nstmt = 0
    nif = 0
    for n in ast.walk(fi.node):
        if isinstance(n, (ast.For, ast.While, ast.Yield, ast.YieldFrom)):
            return False
        if isinstance(n, ast.With) and any(i.optional_vars is not None for i in n.items):
            return False   # `with cm:` without a target only brackets its body (error translation, ...)
        if isinstance(n, ast.Try):
            # a try whose handlers only wrap-and-re-raise does not change the value that flows through
            if n.finalbody or n.orelse or not all(len(h.body) == 1 and isinstance(h.body[0], ast.Raise) for h in n.handlers):
                return False
        if isinstance(n, ast.stmt):
            nstmt += 1
        if isinstance(n, (ast.If, ast.IfExp)):
            nif += 1
    return nstmt <= 10 and nif <= 3


def helper_inline(modules: Tuple[str, ...] = (), exclude: Tuple[str, ...] = (), max_stmt: int = 30) -> Callable[[FunctionInfo, int], bool]:
    """default policy, plus: private (underscore) helpers of the given modules are looked through even when they loop"""
    def pol(fi: FunctionInfo, depth: int) -> bool:
        if default_inline(fi, depth):
            return True
        if depth > 3 or not fi.name.startswith('_') or fi.name.startswith('__') or fi.name in exclude:
            return False
        if modules and fi.module.name not in modules:
            return False
        if fi.name in OPAQUE_METHODS and fi.cls is not None:
            return False
        n = 0
        for x in ast.walk(fi.node):
            if isinstance(x, (ast.With, ast.Yield, ast.YieldFrom, ast.While)):
                return False
            if isinstance(x, ast.Try) and (x.finalbody or x.orelse or not all(len(h.body) == 1 and isinstance(h.body[0], (ast.Raise, ast.Return)) for h in x.handlers)):
                return False
            if isinstance(x, ast.stmt):
                n += 1
        return n <= max_stmt
    return pol


class Evaluator:
    """See module docstring."""

    def __init__(
        self,
        model: Model,
        inline: Callable[[FunctionInfo, int], bool] = default_inline,
        assume: Optional[Dict[Term, Term]] = None,
        max_paths: int = 4096,
        virtual_inline: bool = False,
    ):
        self.m = model
        self.inline = inline
        self.assume = dict(assume or {})
        self.max_paths = max_paths
        self.virtual_inline = virtual_inline
        self._const_memo: Dict[Tuple[str, str], Term] = {}
        self._cur_state: Optional[_State] = None
        self._loop_depth: int = 0
        self._cur_depth: int = 0
        self._const_busy: set = set()
        self._fn_by_key: Dict[str, FunctionInfo] = {f.key: f for f in model.all_functions()}
        self.unresolved_calls: List[str] = []
        self.assert_depth: Dict[Tuple[str, Term], List[int]] = {}
        self.resolved_calls = 0
        self._stack: List[str] = []
        self.steps = 0
        self.max_steps = 400000

    # ------------------------------------------------------------- typing
    def ann_class(self, ann: Optional[ast.expr], mod: ModuleInfo) -> Optional[ClassInfo]:
        if ann is None:
            return None
        if isinstance(ann, ast.Constant) and isinstance(ann.value, str):
            name = ann.value
            r = self.m.resolve_name(mod, name)
            return r[1] if r and r[0] == 'class' else self.m.classes.get(name)
        if isinstance(ann, ast.Name):
            r = self.m.resolve_name(mod, ann.id)
            if r and r[0] == 'class':
                return r[1]
            if r and r[0] == 'const':
                # TypeVar / alias: not a class
                return None
            return None
        if isinstance(ann, ast.Subscript):
            head = ast.unparse(ann.value)
            if head in ('Optional', 'typing.Optional', 'Final', 'typing.Final', 'Type', 'typing.Type'):
                return self.ann_class(ann.slice, mod)
            if head in ('Union', 'typing.Union'):
                elts = ann.slice.elts if isinstance(ann.slice, ast.Tuple) else [ann.slice]
                cs = [self.ann_class(e, mod) for e in elts if not (isinstance(e, ast.Constant) and e.value is None)]
                cs = [c for c in cs if c is not None]
                if len(cs) == 1:
                    return cs[0]
                return None
            return None
        if isinstance(ann, ast.Attribute):
            r = self.m.resolve_name(mod, ast.unparse(ann))
            return r[1] if r and r[0] == 'class' else None
        return None

    def type_of(self, t: Term) -> Optional[ClassInfo]:
        if isinstance(t, New):
            return self.m.classes.get(t.cls)
        if isinstance(t, Sym):
            return self.m.classes.get(t.cls) if t.cls else None
        if isinstance(t, EnumMember):
            return self.m.classes.get(t.cls)
        if isinstance(t, Attr):
            bt = self.type_of(t.base)
            if bt is None:
                return None
            f = bt.field(t.name)
            if f is not None:
                return self.ann_class(f.annotation, f.cls.module)
            m = bt.resolve(t.name)
            if m is not None and m.kind == 'property':
                return self.ann_class(m.node.returns, m.module)
            return None
        if isinstance(t, Call):
            fi = self.callee(t.func)
            if fi is not None:
                return self.ann_class(fi.node.returns, fi.module)
            if isinstance(t.func, Ext) and t.func.name.split('.')[-1] == 'evolve' and t.args:
                return self.type_of(t.args[0])   # attrs.evolve(x, ...) is another instance of x's class
            return None
        if isinstance(t, Ite):
            a, b = self.type_of(t.a), self.type_of(t.b)
            return a if a is b else None
        return None

    def callee(self, f: Term) -> Optional[FunctionInfo]:
        if isinstance(f, FuncRef):
            return self._fn_by_key.get(f.key)
        if isinstance(f, BoundMethod):
            return self._fn_by_key.get(f.key)
        return None

    # ------------------------------------------------------ global lookup
    def global_term(self, mod: ModuleInfo, name: str) -> Term:
        r = self.m.resolve_name(mod, name)
        if r is None:
            if name in _BUILTINS:
                if name == 'True':
                    return TRUE
                if name == 'False':
                    return FALSE
                if name == 'None':
                    return NONE
                return Ext(name)
            return Opaque(f'global:{name}')
        if r[0] == 'class':
            return ClassRef(r[1].name)
        if r[0] == 'func':
            return FuncRef(r[1].key)
        if r[0] == 'module':
            return Ext(f'module:{r[1].name}')
        if r[0] == 'external':
            return Ext(f'{r[1]}.{r[2]}' if r[2] else r[1])
        if r[0] == 'const':
            m2, n2 = r[1], r[2]
            key = (m2.name, n2)
            if key in self._const_memo:
                return self._const_memo[key]
            if key in self._const_busy:
                return Opaque(f'cyclic:{n2}')
            self._const_busy.add(key)
            try:
                st = _State()
                val = self.expr(m2.assigns[n2], st, m2, None, 0)
                # a table completed by module-level statements after its definition: NAME.update({...}), NAME[k] = v
                if isinstance(val, DictT):
                    for stt in m2.tree.body:
                        if isinstance(stt, ast.Expr) and isinstance(stt.value, ast.Call) and isinstance(stt.value.func, ast.Attribute) and stt.value.func.attr == 'update' \
                                and isinstance(stt.value.func.value, ast.Name) and stt.value.func.value.id == n2 and len(stt.value.args) == 1 and not stt.value.keywords:
                            more = self.expr(stt.value.args[0], _State(), m2, None, 0)
                            if isinstance(more, DictT):
                                items = list(val.items)
                                for k, v in more.items:
                                    items = [(k0, v0) for k0, v0 in items if k0 != k] + [(k, v)]
                                val = DictT(tuple(items))
                            else:
                                val = Call(Attr(val, 'update'), (more,))   # not foldable: keep it visible
                                break
                        elif isinstance(stt, ast.Assign) and len(stt.targets) == 1 and isinstance(stt.targets[0], ast.Subscript) and isinstance(stt.targets[0].value, ast.Name) \
                                and stt.targets[0].value.id == n2 and isinstance(val, DictT):
                            k = self.expr(stt.targets[0].slice, _State(), m2, None, 0)
                            v = self.expr(stt.value, _State(), m2, None, 0)
                            val = DictT(tuple((k0, v0) for k0, v0 in val.items if k0 != k) + ((k, v),))
            finally:
                self._const_busy.discard(key)
            if _is_mutable_container(val):
                val = GlobalVal(m2.name, n2, val)
            self._const_memo[key] = val
            return val
        return Opaque(f'global:{name}')

    # ------------------------------------------------------------ function
    def run(self, fi: FunctionInfo, args: Optional[Dict[str, Term]] = None, depth: int = 0, self_cls: Optional[ClassInfo] = None, base_env: Optional[Dict[str, Term]] = None) -> List[Outcome]:
        """Evaluate `fi` with parameters bound to `args` (missing ones become Sym,
        typed by their annotation when it names a package class)."""
        regs = self._single_dispatch(fi) if fi.node.decorator_list and fi.cls is None else None
        if regs and not getattr(fi, '_is_raw', False) and fi.params():
            # @singledispatch: the call goes to the implementation registered for the class of the first argument,
            # most specific class first; the decorated function itself is the default
            first = fi.params()[0]
            given = dict(args or {})
            c_ = self.ann_class(fi.node.args.args[0].annotation, fi.module) if fi.node.args.args else None
            x = given.get(first, Sym(first, c_.name if c_ else None))
            given[first] = x
            rest = tuple(given.get(p_, Sym(p_)) for p_ in fi.params()[1:])
            outs_d: List[Outcome] = []
            neg: Tuple[Guard, ...] = ()
            order = sorted(regs, key=lambda kc: -len(kc[0].mro()) if isinstance(kc[0], ClassInfo) else 0)
            for k, impl in order:
                test = Call(Ext('isinstance'), (x, ClassRef(k.name) if isinstance(k, ClassInfo) else k))
                st_d = _State(dict(base_env or {}), neg + ((test, True),))
                val = self.apply(FuncRef(impl.key), (x,) + rest, (), st_d, depth)
                for g_, leaf in alternatives(val):
                    if isinstance(leaf, Raises):
                        outs_d.append(Outcome('raise', leaf.exc, st_d.guards + g_, st_d.effects, st_d.asserts, impl.node.lineno, dict(st_d.env), st_d.trace))
                    else:
                        outs_d.append(Outcome('return', leaf, st_d.guards + g_, st_d.effects, st_d.asserts, fi.node.lineno, dict(st_d.env), st_d.trace))
                neg = neg + ((test, False),)
            import copy as _copy
            raw = getattr(fi, '_dispatch_default', None)
            if raw is None:
                node2 = _copy.copy(fi.node)
                raw = FunctionInfo(fi.name, fi.qualname + '@default', fi.module, node2, fi.cls, fi.kind, list(fi.decorators))
                raw._is_raw = True
                fi._dispatch_default = raw
            for o in self.run(raw, given, depth, self_cls, base_env):
                outs_d.append(Outcome(o.kind, o.value, neg + o.guards, o.effects, o.asserts, o.lineno, o.env, o.trace))
            return outs_d
        wrapped = self._decorated_form(fi, depth) if fi.node.decorator_list else None
        if wrapped is not None:
            # @decorator def f(...): calling f is calling what decorator(f) returned
            pseudo, cenv = wrapped
            pa = pseudo.node.args
            given = dict(args or {})
            vals = []
            for p_ in fi.node.args.posonlyargs + fi.node.args.args:
                if p_.arg in given:
                    vals.append(given[p_.arg])
                elif p_.arg == 'self' and fi.cls is not None and fi.kind == 'method':
                    vals.append(Sym('self', (self_cls or fi.cls).name))
                else:
                    c_ = self.ann_class(p_.annotation, fi.module)
                    vals.append(Sym(p_.arg, c_.name if c_ else None))
            wparams = [x.arg for x in pa.posonlyargs + pa.args]
            mapped = dict(zip(wparams, vals))
            if pa.vararg is not None:
                mapped[pa.vararg.arg] = TupleT(tuple(vals[len(wparams):]))
            if pa.kwarg is not None:
                mapped[pa.kwarg.arg] = DictT(())
            if len(vals) <= len(wparams) or pa.vararg is not None:
                return self.run(pseudo, mapped, depth, base_env=dict(cenv, **(base_env or {})))
        env: Dict[str, Term] = dict(base_env or {})
        a = fi.node.args
        params = a.posonlyargs + a.args + a.kwonlyargs
        ndef = len(a.defaults)
        pos = a.posonlyargs + a.args
        defaults: Dict[str, ast.expr] = {}
        for p, d in zip(pos[len(pos) - ndef:], a.defaults):
            defaults[p.arg] = d
        for p, d in zip(a.kwonlyargs, a.kw_defaults):
            if d is not None:
                defaults[p.arg] = d
        args = dict(args or {})
        for i, p in enumerate(params):
            if p.arg in args:
                env[p.arg] = args[p.arg]
            elif i == 0 and fi.cls is not None and fi.kind in ('method', 'property') and p.arg == 'self':
                env[p.arg] = Sym('self', (self_cls or fi.cls).name)
            elif i == 0 and fi.cls is not None and fi.kind == 'classmethod':
                env[p.arg] = ClassRef((self_cls or fi.cls).name)
            elif p.arg in defaults and args.get('__use_defaults__', TRUE) is TRUE and p.arg in args.get('__defaulted__', ()):  # pragma: no cover
                env[p.arg] = self.expr(defaults[p.arg], _State(), fi.module, fi, depth)
            else:
                c = self.ann_class(p.annotation, fi.module)
                env[p.arg] = Sym(p.arg, c.name if c else None)
        if a.vararg:
            env[a.vararg.arg] = args.get(a.vararg.arg, Sym('*' + a.vararg.arg))
        if a.kwarg:
            env[a.kwarg.arg] = args.get(a.kwarg.arg, Sym('**' + a.kwarg.arg))
        if fi.cls is not None:
            env['__class__'] = ClassRef(fi.cls.name)
        st = _State(env)
        outs: List[Outcome] = []
        finals = self.block(self._tail_form(fi), [st], fi.module, fi, depth, outs)
        for s in finals:
            outs.append(Outcome('fall', NONE, s.guards, s.effects, s.asserts, fi.node.end_lineno or 0, dict(s.env), s.trace))
        return outs

    _TAIL_FORMS: Dict[int, list] = {}

    def _tail_form(self, fi: FunctionInfo) -> list:
        """A module-level function of the shape

            P                      # assignments computed from the parameters
            while c:
                B
                param = e          # every fall-through of the body re-binds parameters ...
                P                  # ... and repeats the prologue
            R

        is the tail-recursive function `P; if c: B; return f(e); R`: the loop state is a function of the parameters
        alone.  The units of the rewriter are analysed one call at a time with the recursive call as induction
        hypothesis, so a loop that peels its argument is read in that form.  Any other body is returned as it is."""
        cached = getattr(fi, '_tail_form_body', None)
        if cached is not None:
            return cached
        body = fi.node.body
        res = body
        try:
            res = self._tail_form_of(fi) or body
        except Exception:  # pragma: no cover - a shape this does not understand stays a loop
            res = body
        try:
            fi._tail_form_body = res
        except Exception:  # pragma: no cover
            pass
        return res

    @staticmethod
    def _tail_form_of(fi: FunctionInfo) -> Optional[list]:
        body = fi.node.body
        a = fi.node.args
        if fi.cls is not None or a.vararg or a.kwarg or a.kwonlyargs:
            return None
        widx = [i for i, s in enumerate(body) if isinstance(s, ast.While)]
        if len(widx) != 1:
            return None
        wi = widx[0]
        w = body[wi]
        if w.orelse or any(isinstance(n, (ast.Break, ast.Continue, ast.While, ast.For, ast.Yield, ast.YieldFrom)) for b in w.body for n in ast.walk(b)):
            return None
        params = [p.arg for p in a.posonlyargs + a.args]

        def simple(st) -> Optional[Tuple[str, str]]:
            if isinstance(st, ast.Assign) and len(st.targets) == 1 and isinstance(st.targets[0], ast.Name):
                return st.targets[0].id, ast.dump(st.value)
            if isinstance(st, ast.AnnAssign) and isinstance(st.target, ast.Name) and st.value is not None:
                return st.target.id, ast.dump(st.value)
            return None
        start = 1 if body and isinstance(body[0], ast.Expr) and isinstance(body[0].value, ast.Constant) and isinstance(body[0].value.value, str) else 0
        prologue = [simple(st) for st in body[start:wi]]
        if not prologue or any(x is None for x in prologue) or any(t in params for t, _ in prologue):
            return None
        k = len(prologue)
        if len(w.body) < k + 1 or [simple(st) for st in w.body[-k:]] != prologue:
            return None
        # the parameter re-bindings right before the repeated prologue
        j = len(w.body) - k
        new: Dict[str, ast.expr] = {}
        while j > 0:
            sm = simple(w.body[j - 1])
            if sm is None or sm[0] not in params or sm[0] in new:
                break
            st = w.body[j - 1]
            val = st.value
            if any(isinstance(n, ast.Name) and n.id in new for n in ast.walk(val)):
                return None
            new[sm[0]] = val
            j -= 1
        if not new:
            return None
        head = w.body[:j]
        # nothing else the body binds may be needed after the loop, and the body binds no parameter elsewhere
        ptargets = {t for t, _ in prologue}
        bound = {n.id for b in head for n in ast.walk(b) if isinstance(n, ast.Name) and isinstance(n.ctx, ast.Store)}
        if bound & (set(params) | ptargets):
            return None
        after_loads = {n.id for b in body[wi + 1:] for n in ast.walk(b) if isinstance(n, ast.Name) and isinstance(n.ctx, ast.Load)}
        if (bound - ptargets) & after_loads:
            return None
        call = ast.Call(func=ast.Name(id=fi.name, ctx=ast.Load()), args=[new.get(p, ast.Name(id=p, ctx=ast.Load())) for p in params], keywords=[])
        ret = ast.copy_location(ast.Return(value=call), w.body[-1])
        branch = ast.copy_location(ast.If(test=w.test, body=list(head) + [ret], orelse=[]), w)
        ast.fix_missing_locations(branch)
        return list(body[:wi]) + [branch] + list(body[wi + 1:])

    def _single_dispatch(self, fi: FunctionInfo):
        """[(class, implementation)] registered with @fi.register(Class) when fi is a functools.singledispatch function"""
        def is_sd(d):
            return (isinstance(d, ast.Name) and d.id == 'singledispatch') or (isinstance(d, ast.Attribute) and d.attr == 'singledispatch')
        if not any(is_sd(d) for d in fi.node.decorator_list):
            return None
        cached = getattr(fi, '_dispatch_regs', None)
        if cached is not None:
            return cached
        regs = []
        for g in fi.module.functions.values():
            for d in g.node.decorator_list:
                if isinstance(d, ast.Call) and isinstance(d.func, ast.Attribute) and d.func.attr == 'register' and isinstance(d.func.value, ast.Name) \
                        and d.func.value.id == fi.name and len(d.args) == 1 and isinstance(d.args[0], ast.Name):
                    r = self.m.resolve_name(fi.module, d.args[0].id)
                    if r and r[0] == 'class':
                        regs.append((r[1], g))
                    else:
                        # a class from outside the package (Enum, float, ...): the test names it as it is written
                        kt = self.expr(d.args[0], _State(), fi.module, None, 0)
                        if isinstance(kt, Ext):
                            regs.append((kt, g))
        fi._dispatch_regs = regs
        return regs

    def _decorated_form(self, fi: FunctionInfo, depth: int):
        """(pseudo function, closure environment) of the wrapper that the package-defined decorators of fi return, or
        None: decorators from outside the package (property, typechecked, v_args, wraps, ...) do not change what a call
        computes and are ignored as before"""
        if getattr(fi, '_is_raw', False):
            return None
        cached = getattr(fi, '_decorated', False)
        if cached is not False:
            return cached
        import copy as _copy
        res = None
        try:
            pkg = []
            for d in fi.node.decorator_list:
                r = self.m.resolve_name(fi.module, d.id) if isinstance(d, ast.Name) else None
                if r and r[0] == 'func' and isinstance(r[1], FunctionInfo):
                    pkg.append((d, r[1]))
            if pkg:
                node2 = _copy.copy(fi.node)
                node2.decorator_list = [d for d in fi.node.decorator_list if all(d is not x for x, _ in pkg)]
                raw = FunctionInfo(fi.name, fi.qualname + '@raw', fi.module, node2, fi.cls, fi.kind, list(fi.decorators))
                raw._is_raw = True
                self._fn_by_key[raw.key] = raw
                f: Term = FuncRef(raw.key)
                for _, dfi in reversed(pkg):
                    f = self.inline_call(dfi, None, (f,), (), _State(), depth)
                    if f is None:
                        break
                if isinstance(f, Lam) and f.closure is not None:
                    node, cenv, cmod, cfi = f.closure
                    pseudo = FunctionInfo(node.name, f'{fi.qualname}@wrapped', cmod, node, None, 'function')
                    pseudo._is_raw = True
                    res = (pseudo, dict(cenv))
        except AnalysisError:
            res = None
        try:
            fi._decorated = res
        except Exception:  # pragma: no cover
            pass
        return res

    def bind_call(self, fi: FunctionInfo, recv: Optional[Term], args: Tuple[Term, ...], kwargs: Tuple[Tuple[str, Term], ...], depth: int) -> Optional[Dict[str, Term]]:
        a = fi.node.args
        pos = [p.arg for p in a.posonlyargs + a.args]
        bound: Dict[str, Term] = {}
        if fi.cls is not None and fi.kind in ('method', 'property', 'classmethod') and pos:
            if recv is None:
                return None
            bound[pos[0]] = recv
            pos = pos[1:]
        for i, v in enumerate(args):
            if i < len(pos):
                bound[pos[i]] = v
            elif a.vararg:
                bound.setdefault(a.vararg.arg, TupleT(()))
                bound[a.vararg.arg] = TupleT(bound[a.vararg.arg].items + (v,))
            else:
                return None
        names = set(pos) | {p.arg for p in a.kwonlyargs}
        for k, v in kwargs:
            if k in names:
                bound[k] = v
            elif a.kwarg:
                pass
            else:
                return None
        # defaults
        allpos = a.posonlyargs + a.args
        for p, d in zip(allpos[len(allpos) - len(a.defaults):], a.defaults):
            if p.arg not in bound:
                bound[p.arg] = self.expr(d, _State(), fi.module, fi, depth)
        for p, d in zip(a.kwonlyargs, a.kw_defaults):
            if d is not None and p.arg not in bound:
                bound[p.arg] = self.expr(d, _State(), fi.module, fi, depth)
        if a.vararg and a.vararg.arg not in bound:
            bound[a.vararg.arg] = TupleT(())
        return bound

    def inline_call(self, fi: FunctionInfo, recv: Optional[Term], args, kwargs, st: _State, depth: int, base_env: Optional[Dict[str, Term]] = None) -> Optional[Term]:
        if fi.key in self._stack:
            return None
        bound = self.bind_call(fi, recv, args, kwargs, depth)
        if bound is None:
            return None
        fields_env = {k: v for k, v in st.env.items() if k.startswith('@field:')}
        if fields_env:
            base_env = dict(base_env or {}, **fields_env)     # what was stored into local records is visible to the callee
        self._stack.append(fi.key)
        try:
            outs = self.run(fi, bound, depth + 1, base_env=base_env)
        finally:
            self._stack.pop()
        if not outs:
            return None
        # fold outcomes into an Ite chain (guards of the callee become tests)
        result: Optional[Term] = None
        for o in reversed(outs):
            leaf = o.value if o.kind in ('return', 'fall') else Raises(o.value)
            if leaf is None:
                leaf = NONE
            if result is None:
                result = leaf
                continue
            test = self._conj(o.guards)
            if test is None:
                result = leaf
            else:
                result = Ite(test, leaf, result)
        # the first outcome's guards are dropped when it is the only one
        if len(outs) == 1:
            pass
        fkeys = [k for o in outs if o.kind in ('return', 'fall') for k in (o.env or {}) if k.startswith('@field:')]
        for k in dict.fromkeys(fkeys):
            merged: Optional[Term] = None
            for o in reversed([o for o in outs if o.kind in ('return', 'fall')]):
                val = (o.env or {}).get(k, st.env.get(k, Opaque(f'unset:{k}')))
                test = self._conj(o.guards)
                merged = val if merged is None or test is None else mk_ite(test, val, merged)
            st.env[k] = merged
        seen_e = set(map(repr, st.effects))
        for o in outs:
            for e in o.effects:
                k = repr(e)
                if k not in seen_e:
                    seen_e.add(k)
                    st.effects = st.effects + (e,)
        seen_t = set(map(repr, st.trace))
        for o in outs:
            for e in o.trace:
                k = repr(e)
                if k not in seen_t:
                    seen_t.add(k)
                    st.trace = st.trace + (e,)
        for o in outs:
            for a in o.asserts:
                if all(a in o2.asserts for o2 in outs):
                    cond = a
                else:
                    # asserted on some paths of the callee only: it holds under that path's guards
                    g = self._conj(o.guards)
                    cond = a if g is None else Op('or', (Op('not', (g,)), a))
                if cond not in st.asserts:
                    st.asserts = st.asserts + (cond,)
        return result

    def _fork_record_call(self, e: ast.expr, st: _State, mod, fi, depth, outs, lineno) -> Optional[List[_State]]:
        """`rec.update(x)` as a statement, rec a record built in this function (an accumulator): the paths of the method
        go on one by one, each with its own conditions, stores and effects, instead of being merged into one"""
        if not (isinstance(e, ast.Call) and isinstance(e.func, ast.Attribute) and not e.keywords and not any(isinstance(a, ast.Starred) for a in e.args)):
            return None
        if not (isinstance(e.func.value, ast.Name) or (isinstance(e.func.value, ast.Attribute) and isinstance(e.func.value.value, ast.Name))):
            return None
        probe = st.fork()
        func = self.expr(e.func, probe, mod, fi, depth)
        if not (isinstance(func, BoundMethod) and isinstance(func.recv, New)):
            return None
        m = self._fn_by_key.get(func.key)
        if m is None or m.kind != 'method' or m.key in self._stack or not self.inline(m, depth):
            return None
        if any(isinstance(x, (ast.Return,)) and x.value is not None for x in ast.walk(m.node)) or any(isinstance(x, (ast.Yield, ast.YieldFrom, ast.While, ast.For)) for x in ast.walk(m.node)):
            return None
        args = tuple(self.expr(a, st, mod, fi, depth) for a in e.args)
        bound = self.bind_call(m, func.recv, args, (), depth)
        if bound is None:
            return None
        self._stack.append(m.key)
        try:
            couts = self.run(m, bound, depth + 1, base_env={k: v for k, v in st.env.items() if k.startswith('@field:')})
        finally:
            self._stack.pop()
        if len(couts) < 2:
            return None
        res: List[_State] = []
        call_t = Call(func, args, ())
        for o in couts:
            known = {t: pol for t, pol in norm_guards(st.guards)}
            if any(known.get(t, pol) != pol for t, pol in norm_guards(o.guards)):
                continue
            if o.kind == 'raise':
                outs.append(Outcome('raise', o.value, st.guards + o.guards, st.effects + o.effects, st.asserts + o.asserts, lineno, dict(st.env), st.trace))
                continue
            nst = st.fork()
            nst.guards = nst.guards + o.guards
            nst.effects = nst.effects + tuple(x for x in o.effects if x not in nst.effects)
            nst.asserts = nst.asserts + tuple(a for a in o.asserts if a not in nst.asserts)
            nst.trace = nst.trace + tuple(t for t in o.trace if t not in nst.trace) + (call_t,)
            for k, v in (o.env or {}).items():
                if k.startswith('@field:'):
                    nst.env[k] = v
            res.append(nst)
        return res

    @staticmethod
    def _conj(guards: Tuple[Guard, ...]) -> Optional[Term]:
        ts = []
        for t, pol in guards:
            ts.append(t if pol else Op('not', (t,)))
        if not ts:
            return None
        if len(ts) == 1:
            return ts[0]
        return Op('and', tuple(ts))

    # ------------------------------------------------------------ statements
    def block(self, body: List[ast.stmt], states: List[_State], mod: ModuleInfo, fi: Optional[FunctionInfo], depth: int, outs: List[Outcome]) -> List[_State]:
        parked: List[_State] = []
        for stmt in body:
            nxt: List[_State] = []
            for st in states:
                if '__flow__' in st.env:
                    parked.append(st)
                    continue
                nxt.extend(self.stmt(stmt, st, mod, fi, depth, outs))
            states = nxt
            if len(states) + len(outs) > self.max_paths:
                raise AnalysisError('TERMS', f'path explosion in {fi.key if fi else mod.name}')
            if not states:
                break
        return states + parked

    def stmt(self, s: ast.stmt, st: _State, mod, fi, depth, outs) -> List[_State]:
        self.steps += 1
        if self.steps > self.max_steps:
            raise AnalysisError('TERMS', f'step budget exceeded in {fi.key if fi else mod.name}')
        if isinstance(s, ast.Return):
            v = self.expr(s.value, st, mod, fi, depth) if s.value is not None else NONE
            for g, leaf in alternatives(v):
                chosen = {t: pol for t, pol in norm_guards(g)}
                if chosen and any(eval_bool(t, chosen) not in (None, pol) for t, pol in norm_guards(st.guards)):
                    continue   # this alternative of the value contradicts the guards of the path
                if isinstance(leaf, Raises):
                    outs.append(Outcome('raise', leaf.exc, st.guards + g, st.effects, st.asserts, s.lineno, dict(st.env), st.trace))
                else:
                    outs.append(Outcome('return', leaf, st.guards + g, st.effects, st.asserts, s.lineno, dict(st.env), st.trace))
            return []
        if isinstance(s, ast.Raise):
            v = self.expr(s.exc, st, mod, fi, depth) if s.exc is not None else Opaque('reraise')
            outs.append(Outcome('raise', v, st.guards, st.effects, st.asserts, s.lineno, dict(st.env), st.trace))
            return []
        if isinstance(s, ast.Expr) and isinstance(s.value, ast.YieldFrom) and isinstance(s.value.value, ast.Call):
            # yield from gen(args)  ==  for x in gen(args): yield x
            tmp = ast.Name(id='__yield_from_item', ctx=ast.Store())
            loop_ = ast.For(target=tmp, iter=s.value.value, body=[ast.Expr(value=ast.Yield(value=ast.Name(id='__yield_from_item', ctx=ast.Load())))], orelse=[], type_comment=None)
            ast.fix_missing_locations(ast.copy_location(loop_, s))
            spliced = self._generator_loop(loop_, st, mod, fi, depth)
            if spliced is not None:
                return self.block(spliced, [st], mod, fi, depth, outs)
        if isinstance(s, ast.Expr):
            if isinstance(s.value, ast.Constant):
                return [st]
            forked = self._fork_record_call(s.value, st, mod, fi, depth, outs, s.lineno)
            if forked is not None:
                return forked
            v = self.expr(s.value, st, mod, fi, depth)
            st.effects = st.effects + (v,)
            return [st]
        if isinstance(s, (ast.Assign, ast.AnnAssign)):
            if isinstance(s, ast.AnnAssign) and s.value is None:
                return [st]
            v = self.expr(s.value, st, mod, fi, depth)
            targets = s.targets if isinstance(s, ast.Assign) else [s.target]
            alts = alternatives(v) if isinstance(v, Ite) else None
            if alts is not None and 1 < len(alts) <= 6 and any(isinstance(leaf, Raises) for _, leaf in alts):
                # a value computed by a helper that raises on some of its paths: those paths end here, the others go on
                # one by one (with the helper's conditions as guards)
                res_states: List[_State] = []
                for g, leaf in alts:
                    chosen = {t: pol for t, pol in norm_guards(g)}
                    if any(eval_bool(t, chosen) not in (None, pol) for t, pol in norm_guards(st.guards)):
                        continue
                    if isinstance(leaf, Raises):
                        outs.append(Outcome('raise', leaf.exc, st.guards + g, st.effects, st.asserts, s.lineno, dict(st.env), st.trace))
                        continue
                    nst = st.fork()
                    nst.guards = nst.guards + g
                    for t in targets:
                        self.assign(t, leaf, nst, mod, fi, depth)
                    res_states.append(nst)
                return res_states
            for t in targets:
                self.assign(t, v, st, mod, fi, depth)
            return [st]
        if isinstance(s, ast.AugAssign):
            cur = self.expr(s.target, st, mod, fi, depth)
            v = self.expr(s.value, st, mod, fi, depth)
            new = self.binop(_BIN.get(type(s.op), '?'), cur, v)
            self.assign(s.target, new, st, mod, fi, depth)
            return [st]
        if isinstance(s, ast.If):
            test = self.expr(s.test, st, mod, fi, depth)
            res: List[_State] = []
            for g, leaf in alternatives(test):
                base = st.fork()
                base.guards = base.guards + g
                tv = self.truth(leaf)
                if tv is True:
                    res.extend(self.block(s.body, [base], mod, fi, depth, outs))
                elif tv is False:
                    res.extend(self.block(s.orelse, [base], mod, fi, depth, outs))
                else:
                    a = base.fork()
                    a.guards = a.guards + ((leaf, True),)
                    b = base.fork()
                    b.guards = b.guards + ((leaf, False),)
                    res.extend(self.block(s.body, [a], mod, fi, depth, outs))
                    res.extend(self.block(s.orelse, [b], mod, fi, depth, outs))
            return res
        if isinstance(s, ast.Assert):
            test = self.expr(s.test, st, mod, fi, depth)
            tv = self.truth(test)
            if tv is False:
                outs.append(Outcome('raise', Call(Ext('AssertionError')), st.guards, st.effects, st.asserts, s.lineno))
                return []
            if tv is None:
                st.asserts = st.asserts + (test,)
                # how many path conditions had been taken when the assertion was reached (lets a rule tell a
                # precondition stated up front from a conclusion drawn after tests)
                self.assert_depth.setdefault((fi.key if fi is not None else '', test), []).append(len(st.guards))
            return [st]
        if isinstance(s, (ast.Pass, ast.Import, ast.ImportFrom, ast.Global, ast.Nonlocal)):
            return [st]
        if isinstance(s, (ast.For, ast.While)):
            return self.loop(s, st, mod, fi, depth, outs)
        if isinstance(s, ast.Try):
            return self.try_(s, st, mod, fi, depth, outs)
        if isinstance(s, ast.With) and len(s.items) == 1:
            handled = self._with_instance(s, st, mod, fi, depth, outs)
            if handled is not None:
                return handled
        if isinstance(s, ast.With):
            for item in s.items:
                v = self.expr(item.context_expr, st, mod, fi, depth)
                st.effects = st.effects + (v,)
                if item.optional_vars is not None:
                    self.assign(item.optional_vars, Opaque('with'), st, mod, fi, depth)
            return self.block(s.body, [st], mod, fi, depth, outs)
        if isinstance(s, (ast.Break, ast.Continue)):
            st.env['__flow__'] = Const('break' if isinstance(s, ast.Break) else 'continue')
            return [st]
        if isinstance(s, ast.FunctionDef):
            names = tuple(a.arg for a in s.args.posonlyargs + s.args.args)
            lam = Lam(names, Opaque(f'local-def:{s.name}'), None)
            env = dict(st.env)
            env[s.name] = lam   # recursion
            object.__setattr__(lam, 'closure', (s, env, mod, fi))
            st.env[s.name] = lam
            return [st]
        if isinstance(s, ast.ClassDef):
            st.env[s.name] = Opaque(f'local-def:{s.name}')
            return [st]
        if isinstance(s, ast.Delete):
            return [st]
        raise AnalysisError('TERMS', f'statement {type(s).__name__} at {mod.relpath}:{s.lineno} not modelled')

    def _as_tuple(self, v: Term, st: _State, depth: int) -> Term:
        """an instance of a typing.NamedTuple class seen as the tuple of its fields (unpacking, indexing)"""
        if isinstance(v, New):
            ci = self.m.classes.get(v.cls)
            if ci is not None and any(b.split('.')[-1] == 'NamedTuple' for c in ci.mro() for b in c.external_bases):
                return TupleT(tuple(self.attr(v, k, st, depth) for k, _ in v.fields))
        return v

    def assign(self, target: ast.expr, v: Term, st: _State, mod, fi, depth):
        if isinstance(target, ast.Name):
            st.env[target.id] = v
        elif isinstance(target, (ast.Tuple, ast.List)):
            v = self._as_tuple(v, st, depth)
            stars = [i for i, e in enumerate(target.elts) if isinstance(e, ast.Starred)]
            if len(stars) == 1:
                # a, *rest, z = v : positions before the star count from the left, those after it from the right
                k = stars[0]
                after = len(target.elts) - k - 1
                lit = v if isinstance(v, TupleT) and not any(isinstance(x, Op) and x.op == '*' for x in v.items) and len(v.items) >= len(target.elts) - 1 else None
                for i, t in enumerate(target.elts):
                    if i < k:
                        self.assign(t, lit.items[i] if lit else Sub(v, Const(i)), st, mod, fi, depth)
                    elif i == k:
                        if lit:
                            mid = TupleT(lit.items[k:len(lit.items) - after], 'list')
                        else:
                            mid = Sub(v, SliceT(Const(k) if k else None, Const(-after) if after else None, None))
                        self.assign(t.value, mid, st, mod, fi, depth)
                    else:
                        j = i - len(target.elts)
                        self.assign(t, lit.items[j] if lit else Sub(v, Const(j)), st, mod, fi, depth)
                return
            for i, t in enumerate(target.elts):
                if isinstance(v, TupleT) and i < len(v.items) and not any(isinstance(e, ast.Starred) for e in target.elts):
                    self.assign(t, v.items[i], st, mod, fi, depth)
                else:
                    self.assign(t, Sub(v, Const(i)), st, mod, fi, depth)
        elif isinstance(target, (ast.Attribute, ast.Subscript)):
            tt = self.expr(target, st, mod, fi, depth, store=True)
            st.effects = st.effects + (Store(tt, v),)
            if isinstance(tt, Attr) and isinstance(tt.base, New):
                # a field of a record built in this function is a local variable under another name
                st.env[_field_key(tt.base, tt.name)] = v
            if self._loop_depth == 0 and isinstance(target, ast.Subscript) and isinstance(target.value, ast.Name) and not isinstance(target.slice, ast.Slice):
                cur = st.env.get(target.value.id)
                if isinstance(cur, DictT) and not any(isinstance(k, Opaque) for k, _ in cur.items):
                    # straight-line code: the dict built in this function after the store
                    k = self.expr(target.slice, st, mod, fi, depth)
                    new = DictT(tuple((k0, v0) for k0, v0 in cur.items if k0 != k) + ((k, v),))
                    for name in [n_ for n_, val in st.env.items() if val is cur]:
                        st.env[name] = new
        elif isinstance(target, ast.Starred):
            self.assign(target.value, Opaque('starred'), st, mod, fi, depth)
        else:
            raise AnalysisError('TERMS', f'assignment target {type(target).__name__} not modelled')

    @staticmethod
    def _mutates(body: List[ast.stmt], iter_node: ast.expr) -> bool:
        """the loop body appends to / pops from the very list it iterates (work-list loops are not unrolled)"""
        if not isinstance(iter_node, ast.Name):
            return False
        for b in body:
            for n in ast.walk(b):
                if isinstance(n, ast.Call) and isinstance(n.func, ast.Attribute) and isinstance(n.func.value, ast.Name) and n.func.value.id == iter_node.id and n.func.attr in ('append', 'extend', 'pop', 'insert', 'remove', 'clear'):
                    return True
        return False

    @staticmethod
    def _assigned_names(body: List[ast.stmt]) -> List[str]:
        names = []
        for n in body:
            for x in ast.walk(n):
                if isinstance(x, ast.Name) and isinstance(x.ctx, ast.Store):
                    names.append(x.id)
        return names

    def loop(self, s, st: _State, mod, fi, depth, outs) -> List[_State]:
        before = self._loop_depth
        try:
            return self._loop(s, st, mod, fi, depth, outs)
        finally:
            self._loop_depth = before

    def _enum_members_iter(self, it: Term) -> Optional[TupleT]:
        """the members, in definition order, when `it` is E.__members__.values() / list(E) / E for an enumeration E"""
        x = it
        if isinstance(x, Call) and call_name_of(x) == 'values' and not x.args:
            x = x.func.base if isinstance(x.func, Attr) else None
            if not (isinstance(x, Attr) and x.name == '__members__'):
                return None
            x = x.base
        elif isinstance(x, Call) and isinstance(x.func, Ext) and x.func.name in ('list', 'tuple', 'iter') and len(x.args) == 1:
            x = x.args[0]
        if isinstance(x, ClassRef):
            ci = self.m.classes.get(x.name)
            if ci is not None and ci.is_enum and not ci.is_flag and ci.enum_members:
                return TupleT(tuple(EnumMember(ci.name, n) for n in ci.enum_members), 'tuple')
        return None

    @staticmethod
    def _unfilter(s: ast.For) -> ast.For:
        """`for x in filter(p, xs): B` is `for x in xs: if p(x): B`; `for x in (y for y in xs if c): B` likewise"""
        it = s.iter
        if not isinstance(s.target, ast.Name) or s.orelse:
            return s
        if isinstance(it, ast.Call) and isinstance(it.func, ast.Name) and it.func.id == 'filter' and len(it.args) == 2 and not it.keywords \
                and not (isinstance(it.args[0], ast.Constant) and it.args[0].value is None):
            test = ast.Call(func=it.args[0], args=[ast.Name(id=s.target.id, ctx=ast.Load())], keywords=[])
            new = ast.For(target=s.target, iter=it.args[1], body=[ast.If(test=test, body=s.body, orelse=[])], orelse=[], type_comment=None)
            return ast.fix_missing_locations(ast.copy_location(new, s))
        return s

    def _generator_loop(self, s: ast.For, st: _State, mod, fi, depth) -> Optional[List[ast.stmt]]:
        """`for x in gen(args): BODY` over a generator function of the package whose single `yield v` ends one of its loop
        bodies (a tree walk with an explicit work list, say): the generator's statements with `yield v` replaced by
        `x = v; BODY`, its parameters and locals renamed apart.  None when the shape is any other."""
        it = s.iter
        if s.orelse or not isinstance(it, ast.Call) or any(isinstance(a, ast.Starred) for a in it.args) or any(k.arg is None for k in it.keywords):
            return None
        on_self = None
        if isinstance(it.func, ast.Name):
            r = self.m.resolve_name(mod, it.func.id)
            if not (r and r[0] == 'func' and isinstance(r[1], FunctionInfo)):
                return None
            g = r[1]
        elif isinstance(it.func, ast.Attribute) and isinstance(it.func.value, ast.Name) and it.func.value.id == 'self' and fi is not None and fi.cls is not None \
                and fi.kind == 'method' and fi.params()[:1] == ['self']:
            # a generator method of the same object
            g = fi.cls.resolve(it.func.attr)
            if g is None or g.kind != 'method' or g.params()[:1] != ['self'] or self.m.overrides(fi.cls, g.name):
                return None
            on_self = 'self'
        else:
            return None
        if g.name in ('events', 'simple_events', 'iterate', 'children'):
            return None     # traversal API of the AST classes: the rules know these generators by name
        gnode = g.node
        yields = [n for n in ast.walk(gnode) if isinstance(n, (ast.Yield, ast.YieldFrom))]
        if len(yields) != 1 or not isinstance(yields[0], ast.Yield) or yields[0].value is None or g.key in self._stack or depth > 6:
            return None
        if any(isinstance(n, (ast.Return, ast.Try, ast.With, ast.FunctionDef, ast.Lambda, ast.Global, ast.Nonlocal)) for n in ast.walk(gnode) if n is not gnode):
            return None
        if any(isinstance(n, (ast.Break, ast.Continue)) for b in s.body for n in ast.walk(b)):
            return None
        # the yield must be an expression statement that is the last statement of the block it stands in
        def last_in_block(block) -> bool:
            for i, st_ in enumerate(block):
                if isinstance(st_, ast.Expr) and st_.value is yields[0]:
                    return i == len(block) - 1
                for fld in ('body', 'orelse'):
                    sub = getattr(st_, fld, None)
                    if isinstance(sub, list) and any(yields[0] is n for b in sub for n in ast.walk(b)):
                        return last_in_block(sub)
            return False
        body = [st_ for st_ in gnode.body if not (isinstance(st_, ast.Expr) and isinstance(st_.value, ast.Constant))]
        if not last_in_block(body):
            return None
        a = gnode.args
        if a.vararg or a.kwarg or a.kwonlyargs:
            return None
        params = [x.arg for x in a.posonlyargs + a.args]
        if on_self:
            params = params[1:]
        def code_names(ctx_type):
            out_n = set()
            todo_n = list(body)
            while todo_n:
                x = todo_n.pop()
                if isinstance(x, ast.Name) and isinstance(x.ctx, ctx_type):
                    out_n.add(x.id)
                for fname_, val_ in ast.iter_fields(x):
                    if fname_ in ('annotation', 'returns', 'type_comment'):
                        continue        # annotations are not evaluated
                    for c_ in (val_ if isinstance(val_, list) else [val_]):
                        if isinstance(c_, ast.AST):
                            todo_n.append(c_)
            return out_n
        local = set(params) | code_names(ast.Store)
        free = code_names(ast.Load) - local - ({'self'} if on_self else set())
        if g.module is not mod and any(f not in _BUILTINS for f in free):
            return None      # it reads names of its own module: they would be looked up in the caller's
        import copy as _copy
        ren = {n: f'__{g.name}_{n}' for n in local}

        class Ren(ast.NodeTransformer):
            def visit_Name(self_, n):
                return ast.copy_location(ast.Name(id=ren.get(n.id, n.id), ctx=n.ctx), n)

            def visit_Expr(self_, n):
                if n.value is yields[0]:
                    v = self_.visit(_copy.deepcopy(n.value.value))
                    return [ast.copy_location(ast.Assign(targets=[_copy.deepcopy(s.target)], value=v), n)] + [_copy.deepcopy(b) for b in s.body]
                return self_.generic_visit(n)
        given: Dict[str, ast.expr] = dict(zip(params, it.args))
        for k in it.keywords:
            if k.arg not in params or k.arg in given:
                return None
            given[k.arg] = k.value
        nd = len(a.defaults)
        defaults = dict(zip(params[len(params) - nd:], a.defaults)) if nd else {}
        pre: List[ast.stmt] = []
        for p_ in params:
            src = given.get(p_, defaults.get(p_))
            if src is None:
                return None
            pre.append(ast.copy_location(ast.Assign(targets=[ast.Name(id=ren[p_], ctx=ast.Store())], value=src), s))
        new_body: List[ast.stmt] = []
        for st_ in body:
            # the original yield node must be found by identity: transform a copy that keeps it
            out_ = Ren().visit(self._copy_keeping(st_, yields[0]))      # always a copy: the generator's own AST stays as it is
            new_body.extend(out_ if isinstance(out_, list) else [out_])
        res = pre + new_body
        for x in res:
            ast.fix_missing_locations(x)
        return res

    @staticmethod
    def _copy_keeping(node: ast.AST, keep: ast.AST) -> ast.AST:
        """deep copy of node in which the sub-node `keep` (and the Expr statement holding it) is shared, not copied"""
        import copy as _copy
        memo = {id(keep): keep}
        for n in ast.walk(node):
            if isinstance(n, ast.Expr) and n.value is keep:
                memo[id(n)] = n
        return _copy.deepcopy(node, memo)

    def _loop(self, s, st: _State, mod, fi, depth, outs) -> List[_State]:
        if isinstance(s, ast.For):
            spliced = self._generator_loop(s, st, mod, fi, depth)
            if spliced is not None:
                return self.block(spliced, [st], mod, fi, depth, outs)
            s = self._unfilter(s)
            it = self.expr(s.iter, st, mod, fi, depth)
            tsrc = ast.unparse(s.target)
            mapped_elem = None
            if isinstance(it, Comp) and it.kind in ('list', 'gen') and len(it.gens) == 1 and not it.gens[0][2] and isinstance(s.target, ast.Name) and not s.orelse:
                # for a in [E(x) for x in xs]: BODY  ==  for x in xs: a = E(x); BODY
                mapped_elem = it.elt
                tsrc, it = it.gens[0][0], it.gens[0][1]
            lit = it.value if isinstance(it, GlobalVal) else it      # a module-level table of evident rows
            if mapped_elem is not None:
                lit = Opaque('mapped')      # (never unrolled: the elements are images, not the items themselves)
            if isinstance(lit, Call) and isinstance(lit.func, Ext) and lit.func.name in ('reversed',) and len(lit.args) == 1 and isinstance(lit.args[0], TupleT):
                lit = TupleT(tuple(reversed(lit.args[0].items)), lit.args[0].kind)
            members = self._enum_members_iter(it)
            if members is not None and len(members.items) <= 48 and not s.orelse and len(s.body) <= 2 \
                    and not any(isinstance(n, (ast.Return, ast.Break, ast.Continue, ast.For, ast.While, ast.If, ast.Yield, ast.YieldFrom)) for b in s.body for n in ast.walk(b)):
                # a table built from the members of an enumeration, one straight-line step per member
                states = [st]
                for item in members.items:
                    nxt_: List[_State] = []
                    for cur in states:
                        self.assign(s.target, item, cur, mod, fi, depth)
                        nxt_.extend(self.block(s.body, [cur], mod, fi, depth, outs))
                    states = nxt_
                return states
            if isinstance(lit, TupleT) and lit.kind in ('tuple', 'list') and not lit.items and not s.orelse:
                return [st]     # a loop over an empty literal does nothing
            if isinstance(lit, TupleT) and lit.kind in ('tuple', 'list') and 0 < len(lit.items) <= 8 and not s.orelse \
                    and not any(isinstance(x, Op) and x.op == '*' for x in lit.items) \
                    and not (any(isinstance(n, (ast.Break, ast.Continue)) for b in s.body for n in ast.walk(b))
                             and any(isinstance(n, (ast.For, ast.While)) for b in s.body for n in ast.walk(b))) \
                    and not self._mutates(s.body, s.iter):
                states = [st]
                left: List[_State] = []      # paths that left the loop through `break`
                for item in lit.items:
                    nxt: List[_State] = []
                    for cur in states:
                        self.assign(s.target, item, cur, mod, fi, depth)
                        for after in self.block(s.body, [cur], mod, fi, depth, outs):
                            flow = after.env.pop('__flow__', None)
                            (left if isinstance(flow, Const) and flow.value == 'break' else nxt).append(after)
                    states = nxt
                    if len(states) + len(left) > 64:
                        break
                else:
                    return states + left
                # too many paths: fall through to the summary
        else:
            it = self.expr(s.test, st, mod, fi, depth)
            tsrc = '<while>'
        self._loop_depth += 1   # from here on the body is evaluated once, symbolically
        body_st = st.fork()
        body_st.effects = ()
        body_st.guards = ()
        body_st.trace = ()
        loop_targets = [n.id for n in ast.walk(s.target) if isinstance(n, ast.Name)] if isinstance(s, ast.For) else []
        assigned = self._assigned_names(s.body) + loop_targets
        for n in assigned:
            body_st.env[n] = Opaque(f'loopvar:{n}')
        if isinstance(s, ast.For):
            for n in ast.walk(s.target):
                if isinstance(n, ast.Name):
                    body_st.env[n.id] = Sym(f'each:{n.id}')
            if mapped_elem is not None:
                body_st.env[s.target.id] = mapped_elem
        inner: List[Outcome] = []
        cond_term = None
        if isinstance(s, ast.While):
            try:
                cond_term = self.expr(s.test, body_st.fork(), mod, fi, depth)
            except AnalysisError:
                cond_term = None
        steps0 = self.steps
        finals = self.block(s.body, [body_st.fork()], mod, fi, depth, inner)
        stored_fields = sorted({k for f in finals for k, v in f.env.items() if k.startswith('@field:') and st.env.get(k) is not v and st.env.get(k) != v})
        if stored_fields:
            # fields of a local record stored in the body: loop-carried like any assigned name; evaluate the body again
            # with their value at the top of an iteration unknown
            for k in stored_fields:
                body_st.env[k] = Opaque(f'loopvar:{k}')
            assigned = assigned + stored_fields
            inner.clear()
            self.steps = steps0
            finals = self.block(s.body, [body_st], mod, fi, depth, inner)
        effs: List[Term] = []
        paths = []
        for f in finals:
            for e in f.effects:
                if e not in effs:
                    effs.append(e)
            flow = f.env.pop('__flow__', None)
            # calls that were inlined leave no effect term: keep them visible through the trace
            extra = tuple(t for t in f.trace if t not in f.effects)
            paths.append((f.guards, flow.value if isinstance(flow, Const) else 'end',
                          tuple((n, f.env[n]) for n in sorted(set(assigned)) if n in f.env), f.effects + extra))
            for t in f.trace:
                if t not in st.trace:
                    st.trace = st.trace + (t,)
        has_break = any(isinstance(n, ast.Break) for b in s.body for n in ast.walk(b))
        raises = tuple((o.guards, o.value) for o in inner if o.kind == 'raise')
        returns = tuple((o.guards, o.value) for o in inner if o.kind == 'return')
        summary = Loop(tsrc, it, tuple(effs), raises, returns, tuple(paths), tuple((n, st.env[n]) for n in dict.fromkeys(assigned) if n in st.env and n not in loop_targets), cond_term)
        st.effects = st.effects + (summary,)
        for o in inner:
            outs.append(Outcome(o.kind, o.value, st.guards + ((Op('iterating', (it,)), True),) + o.guards, st.effects + o.effects, st.asserts + o.asserts, o.lineno))
        for n in set(assigned):
            st.env[n] = Opaque(f'loop:{n}')
        st.env.pop('__flow__', None)
        built = self._list_builder(s, st, mod, fi, depth) if isinstance(s, ast.For) else None
        if built is not None:
            st.env[built[0]] = built[1]
        # a local list literal that the loop body grows or shrinks is no longer that literal afterwards
        if isinstance(s, ast.While) or True:
            mutated = []
            for e_ in effs:
                for x_ in walk(e_):
                    if isinstance(x_, Call) and isinstance(x_.func, Attr) and x_.func.name in ('append', 'extend', 'insert', 'appendleft', 'extendleft', 'pop', 'popleft', 'remove', 'clear') \
                            and isinstance(x_.func.base, TupleT) and x_.func.base.kind == 'list':
                        mutated.append(x_.func.base)
            if mutated and not (isinstance(it, TupleT) and any(it is m_ or it == m_ for m_ in mutated)):
                for n_, v_ in list(st.env.items()):
                    if built is not None and n_ == built[0]:
                        continue
                    if isinstance(v_, TupleT) and v_.kind == 'list' and any(v_ is m_ or v_ == m_ for m_ in mutated):
                        st.env[n_] = Call(Ext('hplsa.grown'), (v_,))
        if s.orelse:
            if has_break:
                a = st.fork()
                a.guards = a.guards + ((Op('loop-completes', (it,)), True),)
                b = st.fork()
                b.guards = b.guards + ((Op('loop-completes', (it,)), False),)
                return self.block(s.orelse, [a], mod, fi, depth, outs) + [b]
            return self.block(s.orelse, [st], mod, fi, depth, outs)
        return [st]

    def _list_builder(self, s: ast.For, st: _State, mod, fi, depth) -> Optional[Tuple[str, Term]]:
        """`for x in xs: [for y in ys:] acc.append(e)` with acc an empty local list -> acc = [e for x in xs for y in ys]"""
        gens: List[Tuple[ast.expr, ast.expr]] = []
        cur: ast.stmt = s
        while isinstance(cur, ast.For) and not cur.orelse:
            gens.append((cur.target, cur.iter))
            if len(cur.body) != 1:
                return None
            cur = cur.body[0]
        if not (isinstance(cur, ast.Expr) and isinstance(cur.value, ast.Call) and isinstance(cur.value.func, ast.Attribute) and cur.value.func.attr in ('append', 'extend')
                and isinstance(cur.value.func.value, ast.Name) and len(cur.value.args) == 1):
            return None
        extend = cur.value.func.attr == 'extend'
        acc = cur.value.func.value.id
        init = st.env.get(acc)
        if not (isinstance(init, TupleT) and init.kind == 'list' and not init.items):
            return None
        sub = st.fork()
        tgens = []
        for tgt, it in gens:
            itt = self.expr(it, sub, mod, fi, depth)
            for n in ast.walk(tgt):
                if isinstance(n, ast.Name):
                    sub.env[n.id] = Sym(f'each:{n.id}')
            tgens.append((ast.unparse(tgt), itt, ()))
        elt = self.expr(cur.value.args[0], sub, mod, fi, depth)
        if extend:
            # acc.extend(E(x)) for x in xs: [y for x in xs for y in E(x)]
            tgens.append(('_y', elt, ()))
            elt = Sym('each:_y')
        return acc, Comp('list', elt, tuple(tgens))

    def _with_instance(self, s: ast.With, st: _State, mod, fi, depth, outs) -> Optional[List[_State]]:
        """`with obj:` over an instance (built in this function) of a package class with __exit__: the try statement that
        __exit__ encodes.  Each way __exit__ has of returning True for an exception of class K is a handler `except K`
        (its prints and stores included) after which execution goes on behind the block; where it returns False the
        exception propagates."""
        item = s.items[0]
        probe = st.fork()
        v = self.expr(item.context_expr, probe, mod, fi, depth)
        if not isinstance(v, New):
            return None
        ci = self.m.classes.get(v.cls)
        exit_fi = ci.resolve('__exit__') if ci is not None else None
        if exit_fi is None or len(exit_fi.params()) != 4 or exit_fi.key in self._stack:
            return None
        pre = st.fork()
        if item.optional_vars is not None:
            enter = ci.resolve('__enter__')
            ent = self.inline_call(enter, v, (), (), st, depth) if enter is not None else None
            self.assign(item.optional_vars, ent if ent is not None else Opaque('with'), st, mod, fi, depth)
        res = self.block(s.body, [st], mod, fi, depth, outs)
        assigned = self._assigned_names(s.body)
        exc = Sym('exc:with')
        ps = exit_fi.params()
        self._stack.append(exit_fi.key)
        try:
            couts = self.run(exit_fi, {ps[0]: v, ps[1]: Call(Ext('type'), (exc,)), ps[2]: exc, ps[3]: Opaque('traceback')}, depth + 1,
                             base_env={k: val for k, val in pre.env.items() if k.startswith('@field:')})
        finally:
            self._stack.pop()
        for o in couts:
            if o.kind != 'return' or not (isinstance(o.value, Const) and o.value.value is True):
                continue        # not swallowed: the exception goes on to the caller
            gs = norm_guards(o.guards)
            classes = [g.args[1] for g, pol in gs if pol and isinstance(g, Call) and isinstance(g.func, Ext) and g.func.name == 'isinstance' and len(g.args) == 2 and g.args[0] == exc]
            if not classes:
                continue
            hs = pre.fork()
            for n in assigned:
                if n not in hs.env:
                    hs.env[n] = Opaque(f'try:{n}')
            hs.guards = hs.guards + ((Op('except', (classes[-1],)), True),) + tuple((g, pol) for g, pol in gs if not any(x == exc for x in walk(g)))
            hs.effects = hs.effects + tuple(e for e in o.effects if e not in hs.effects)
            hs.asserts = hs.asserts + tuple(a for a in o.asserts if a not in hs.asserts)
            for k, val in (o.env or {}).items():
                if k.startswith('@field:'):
                    hs.env[k] = val
            res.append(hs)
        return res

    def try_(self, s: ast.Try, st: _State, mod, fi, depth, outs) -> List[_State]:
        pre = st.fork()
        res = self.block(s.body, [st], mod, fi, depth, outs)
        if s.orelse:
            res = self.block(s.orelse, res, mod, fi, depth, outs)
        assigned = self._assigned_names(s.body)
        for h in s.handlers:
            hs = pre.fork()
            for n in assigned:
                if n not in hs.env:
                    hs.env[n] = Opaque(f'try:{n}')
            ht = self.expr(h.type, hs, mod, fi, depth) if h.type is not None else Ext('BaseException')
            hs.guards = hs.guards + ((Op('except', (ht,)), True),)
            if h.name:
                hs.env[h.name] = Sym(f'exc:{h.name}')
            res.extend(self.block(h.body, [hs], mod, fi, depth, outs))
        if s.finalbody:
            res = self.block(s.finalbody, res, mod, fi, depth, outs)
        return res

    # ----------------------------------------------------------- expressions
    def _flag_numbers(self, ci: ClassInfo) -> Optional[Dict[str, int]]:
        """numeric values of the members of a Flag class whose bits are written out (1, 2, 1 << 3, ...), with auto()
        continuing after the highest bit used so far, as enum.Flag does; None when some value does not fold"""
        memo = getattr(self, '_flag_num_memo', None)
        if memo is None:
            memo = self._flag_num_memo = {}
        if ci.name in memo:
            return memo[ci.name]
        memo[ci.name] = None
        nums: Dict[str, int] = {}

        def num(v: Term) -> Optional[int]:
            if isinstance(v, Const) and type(v.value) is int and v.value >= 0:
                return v.value
            if isinstance(v, EnumMember) and v.cls == ci.name:
                return nums.get(v.name)
            if isinstance(v, Op) and v.op in ('|', '&', '^') and len(v.args) == 2:
                a, b = num(v.args[0]), num(v.args[1])
                if a is None or b is None:
                    return None
                return a | b if v.op == '|' else a & b if v.op == '&' else a ^ b
            return None
        for name in ci.enum_members:
            v = self.enum_value(EnumMember(ci.name, name), 0)
            if isinstance(v, Call) and isinstance(v.func, Ext) and v.func.name.endswith('auto'):
                hi = max(nums.values(), default=0)
                n = 1 << hi.bit_length() if hi else 1
            else:
                n = num(v)
            if n is None:
                return None
            nums[name] = n
        memo[ci.name] = nums
        return nums

    def flag_bits(self, t: Term, _depth: int = 0) -> Optional[frozenset]:
        """fold a term over members of an enum.Flag class into a set of base-member names"""
        if _depth > 12:
            return None
        if isinstance(t, EnumMember):
            ci = self.m.classes.get(t.cls)
            if ci is None or not ci.is_flag or t.name not in ci.enum_members:
                return None
            v = self.enum_value(t, 0)
            if isinstance(v, Call) and isinstance(v.func, Ext) and v.func.name.endswith('auto'):
                return frozenset({(t.cls, t.name)})
            if isinstance(v, Const) and type(v.value) is int and v.value > 0:
                # bits written out: each bit belongs to the first member that is exactly that bit
                nums = self._flag_numbers(ci)
                if nums is None:
                    return None
                owner: Dict[int, str] = {}
                for name, n in nums.items():
                    if n and n & (n - 1) == 0:
                        owner.setdefault(n, name)
                out = set()
                bit = 1
                while bit <= v.value:
                    if v.value & bit:
                        if bit not in owner:
                            return None
                        out.add((t.cls, owner[bit]))
                    bit <<= 1
                return frozenset(out)
            return self.flag_bits(v, _depth + 1)
        if isinstance(t, Const) and t.value == 0 and isinstance(t.value, int) and not isinstance(t.value, bool):
            return frozenset()  # the empty flag
        if isinstance(t, Call) and isinstance(t.func, FuncRef) and not t.kwargs:
            # a set of flags built by a small helper of the package (it ors its arguments): its result on these arguments
            callee = self.callee(t.func)
            if callee is not None and _depth < 6:
                a = callee.node.args
                binding = None
                if a.vararg is not None and not a.args and not a.kwonlyargs:
                    binding = {a.vararg.arg: TupleT(tuple(t.args))}
                elif a.vararg is None and len(a.args) == len(t.args):
                    binding = dict(zip([x.arg for x in a.args], t.args))
                if binding is not None:
                    try:
                        outs = [o for o in self.run(callee, binding) if o.kind != 'raise']
                    except AnalysisError:
                        outs = []
                    if len(outs) == 1 and outs[0].kind == 'return' and outs[0].value is not None:
                        return self.flag_bits(outs[0].value, _depth + 1)
        if isinstance(t, Op) and t.op in ('|', '&') and len(t.args) == 2:
            a, b = self.flag_bits(t.args[0], _depth + 1), self.flag_bits(t.args[1], _depth + 1)
            if a is None or b is None:
                return None
            return (a | b) if t.op == '|' else (a & b)
        return None

    def truth(self, t: Term) -> Optional[bool]:
        if isinstance(t, Const):
            return bool(t.value)
        if isinstance(t, Op) and t.op in ('|', '&'):
            fb = self.flag_bits(t)
            if fb is not None:
                return bool(fb)
        if isinstance(t, Call) and isinstance(t.func, Ext) and t.func.name == 'bool' and len(t.args) == 1:
            return self.truth(t.args[0])
        if isinstance(t, (ClassRef, FuncRef, New, Lam, EnumMember)):
            return True
        if isinstance(t, TupleT):
            return bool(t.items)
        if isinstance(t, DictT) and not any(isinstance(k, Opaque) for k, _ in t.items):
            return bool(t.items)
        if isinstance(t, Template):
            return None
        return None

    def expr(self, e: Optional[ast.expr], st: _State, mod: ModuleInfo, fi: Optional[FunctionInfo], depth: int, store: bool = False) -> Term:
        if e is None:
            return NONE
        if isinstance(e, ast.Constant):
            return Const(e.value)
        if isinstance(e, ast.Name):
            if e.id in st.env:
                return st.env[e.id]
            return self.global_term(mod, e.id)
        if isinstance(e, ast.Attribute):
            base = self.expr(e.value, st, mod, fi, depth)
            return self.attr(base, e.attr, st, depth, store=store)
        if isinstance(e, ast.Call):
            return self.call(e, st, mod, fi, depth)
        if isinstance(e, ast.IfExp):
            test = self.expr(e.test, st, mod, fi, depth)
            tv = self.truth(test)
            if tv is True:
                return self.expr(e.body, st, mod, fi, depth)
            if tv is False:
                return self.expr(e.orelse, st, mod, fi, depth)
            return Ite(test, self.expr(e.body, st, mod, fi, depth), self.expr(e.orelse, st, mod, fi, depth))
        if isinstance(e, ast.Compare):
            left = self.expr(e.left, st, mod, fi, depth)
            parts = []
            for op, c in zip(e.ops, e.comparators):
                right = self.expr(c, st, mod, fi, depth)
                parts.append(self.compare(_CMP[type(op)], left, right))
                left = right
            if len(parts) == 1:
                return parts[0]
            return self.boolop('and', parts)
        if isinstance(e, ast.BoolOp):
            vals = [self.expr(v, st, mod, fi, depth) for v in e.values]
            return self.boolop('and' if isinstance(e.op, ast.And) else 'or', vals)
        if isinstance(e, ast.UnaryOp):
            v = self.expr(e.operand, st, mod, fi, depth)
            op = _UN[type(e.op)]
            if op == 'not':
                tv = self.truth(v)
                if tv is not None:
                    return Const(not tv)
                return Op('not', (v,))
            if op == 'neg' and isinstance(v, Const) and isinstance(v.value, (int, float)):
                return Const(-v.value)
            return Op(op, (v,))
        if isinstance(e, ast.BinOp):
            a = self.expr(e.left, st, mod, fi, depth)
            b = self.expr(e.right, st, mod, fi, depth)
            return self.binop(_BIN[type(e.op)], a, b)
        if isinstance(e, (ast.Tuple, ast.List, ast.Set)):
            items = []
            for x in e.elts:
                if isinstance(x, ast.Starred):
                    items.append(Op('*', (self.expr(x.value, st, mod, fi, depth),)))
                else:
                    items.append(self.expr(x, st, mod, fi, depth))
            kind = 'tuple' if isinstance(e, ast.Tuple) else 'list' if isinstance(e, ast.List) else 'set'
            return TupleT(tuple(items), kind)
        if isinstance(e, ast.Dict):
            return DictT(tuple((self.expr(k, st, mod, fi, depth) if k is not None else Opaque('**'), self.expr(v, st, mod, fi, depth)) for k, v in zip(e.keys, e.values)))
        if isinstance(e, ast.Subscript):
            base = self.expr(e.value, st, mod, fi, depth)
            if isinstance(e.slice, ast.Slice):
                idx: Term = SliceT(
                    self.expr(e.slice.lower, st, mod, fi, depth) if e.slice.lower else None,
                    self.expr(e.slice.upper, st, mod, fi, depth) if e.slice.upper else None,
                    self.expr(e.slice.step, st, mod, fi, depth) if e.slice.step else None,
                )
            else:
                idx = self.expr(e.slice, st, mod, fi, depth)
            if isinstance(base, New) and not store:
                base = self._as_tuple(base, st, depth)
            if isinstance(base, TupleT) and isinstance(idx, Const) and isinstance(idx.value, int) and not store:
                if -len(base.items) <= idx.value < len(base.items):
                    return base.items[idx.value]
            if isinstance(base, TupleT) and isinstance(idx, SliceT) and not store and not any(isinstance(x, Op) and x.op == '*' for x in base.items):
                def _c(t):
                    return t is None or (isinstance(t, Const) and isinstance(t.value, int))
                if _c(idx.lo) and _c(idx.hi) and _c(idx.step):
                    sl = slice(idx.lo.value if idx.lo else None, idx.hi.value if idx.hi else None, idx.step.value if idx.step else None)
                    return TupleT(base.items[sl], base.kind)
            bd = base.value if isinstance(base, GlobalVal) else base
            if isinstance(bd, DictT) and isinstance(idx, (Const, EnumMember)) and not store and all(isinstance(k, (Const, EnumMember)) for k, _ in bd.items):
                for k, v in bd.items:
                    if k == idx:
                        return v
            if isinstance(base, ClassRef) and isinstance(idx, Const) and isinstance(idx.value, str):
                ci = self.m.classes.get(base.name)
                if ci is not None and ci.is_enum and idx.value in ci.enum_members:
                    return EnumMember(ci.name, idx.value)
            if isinstance(bd, DictT) and not store:
                r = self.dict_lookup(bd, idx, Raises(Call(Ext('KeyError'), (idx,))))
                if r is not None:
                    return r
            return Sub(base, idx)
        if isinstance(e, ast.JoinedStr):
            parts: List[Term] = []
            for v in e.values:
                if isinstance(v, ast.Constant):
                    parts.append(Const(str(v.value)))
                elif isinstance(v, ast.FormattedValue):
                    val = self.expr(v.value, st, mod, fi, depth)
                    conv = {-1: '', 115: 's', 114: 'r', 97: 'a'}.get(v.conversion, '?')
                    spec = ''
                    if v.format_spec is not None:
                        spec = ast.unparse(v.format_spec)
                    parts.append(Fmt(val, conv, spec))
            return self.template(parts)
        if isinstance(e, ast.Lambda):
            sub = st.fork()
            names = tuple(a.arg for a in e.args.args)
            for n in names:
                sub.env[n] = Sym(f'lam:{n}')
            fd = ast.FunctionDef(name='<lambda>', args=e.args, body=[ast.Return(value=e.body, lineno=e.lineno, col_offset=0)], decorator_list=[],
                                 returns=None, lineno=e.lineno, col_offset=0, end_lineno=getattr(e, 'end_lineno', e.lineno))
            return Lam(names, self.expr(e.body, sub, mod, fi, depth), (fd, dict(st.env), mod, fi))
        if isinstance(e, (ast.GeneratorExp, ast.ListComp, ast.SetComp)) and len(e.generators) == 1 and e.generators[0].ifs:
            lit0 = self.expr(e.generators[0].iter, st, mod, fi, depth)
            if isinstance(lit0, TupleT) and not lit0.items:
                return TupleT((), 'set' if isinstance(e, ast.SetComp) else 'tuple')   # nothing to filter
        if isinstance(e, (ast.GeneratorExp, ast.ListComp, ast.SetComp)) and len(e.generators) == 1 and not e.generators[0].ifs \
                and isinstance(e.generators[0].target, (ast.Name, ast.Tuple)):
            lit = self.expr(e.generators[0].iter, st, mod, fi, depth)
            if isinstance(lit, GlobalVal):
                lit = lit.value
            if isinstance(lit, TupleT) and not lit.items:
                return TupleT((), 'set' if isinstance(e, ast.SetComp) else 'tuple')
            if isinstance(lit, TupleT) and lit.kind in ('tuple', 'list') and 0 < len(lit.items) <= 8 and not any(isinstance(x, Op) and x.op == '*' for x in lit.items):
                vals = []
                for item in lit.items:
                    sub = st.fork()
                    self.assign(e.generators[0].target, item, sub, mod, fi, depth)
                    vals.append(self.expr(e.elt, sub, mod, fi, depth))
                return TupleT(tuple(vals), 'set' if isinstance(e, ast.SetComp) else 'tuple')
        if isinstance(e, (ast.GeneratorExp, ast.ListComp, ast.SetComp)):
            sub = st.fork()
            gens = []
            for g in e.generators:
                it = self.expr(g.iter, sub, mod, fi, depth)
                for n in ast.walk(g.target):
                    if isinstance(n, ast.Name):
                        sub.env[n.id] = Sym(f'each:{n.id}')
                ifs = tuple(self.expr(c, sub, mod, fi, depth) for c in g.ifs)
                gens.append((ast.unparse(g.target), it, ifs))
            kind = 'gen' if isinstance(e, ast.GeneratorExp) else 'list' if isinstance(e, ast.ListComp) else 'set'
            gens = _split_product(gens)
            return Comp(kind, self.expr(e.elt, sub, mod, fi, depth), tuple(gens))
        if isinstance(e, ast.DictComp) and len(e.generators) == 1 and not e.generators[0].ifs and isinstance(e.generators[0].target, (ast.Name, ast.Tuple)):
            lit = self.expr(e.generators[0].iter, st, mod, fi, depth)
            if isinstance(lit, GlobalVal):
                lit = lit.value
            items_ = self.literal_items(lit)
            if items_ is not None and 0 < len(items_) <= 40:
                pairs: List[Tuple[Term, Term]] = []
                for item in items_:
                    sub = st.fork()
                    self.assign(e.generators[0].target, item, sub, mod, fi, depth)
                    k, v = self.expr(e.key, sub, mod, fi, depth), self.expr(e.value, sub, mod, fi, depth)
                    pairs = [(k0, v0) for k0, v0 in pairs if k0 != k] + [(k, v)]
                return DictT(tuple(pairs))
        if isinstance(e, ast.DictComp):
            sub = st.fork()
            gens = []
            for g in e.generators:
                it = self.expr(g.iter, sub, mod, fi, depth)
                for n in ast.walk(g.target):
                    if isinstance(n, ast.Name):
                        sub.env[n.id] = Sym(f'each:{n.id}')
                ifs = tuple(self.expr(c, sub, mod, fi, depth) for c in g.ifs)
                gens.append((ast.unparse(g.target), it, ifs))
            return Comp('dict', TupleT((self.expr(e.key, sub, mod, fi, depth), self.expr(e.value, sub, mod, fi, depth))), tuple(gens))
        if isinstance(e, ast.Starred):
            return Op('*', (self.expr(e.value, st, mod, fi, depth),))
        if isinstance(e, ast.NamedExpr):
            v = self.expr(e.value, st, mod, fi, depth)
            st.env[e.target.id] = v
            return v
        if isinstance(e, (ast.Yield, ast.YieldFrom)):
            v = self.expr(e.value, st, mod, fi, depth) if e.value is not None else NONE
            return Op('yield' if isinstance(e, ast.Yield) else 'yield from', (v,))
        if isinstance(e, ast.Slice):
            return SliceT(None, None)
        raise AnalysisError('TERMS', f'expression {type(e).__name__} at {mod.relpath}:{getattr(e, "lineno", 0)} not modelled')

    def template(self, parts: List[Term]) -> Term:
        flat: List[Term] = []
        for p in parts:
            if isinstance(p, Template):
                flat.extend(p.parts)
            elif isinstance(p, Fmt) and isinstance(p.value, Const) and isinstance(p.value.value, str) and not p.spec and p.conv in ('', 's'):
                flat.append(p.value)
            elif isinstance(p, Fmt) and isinstance(p.value, Template) and not p.spec and p.conv in ('', 's'):
                flat.extend(p.value.parts)
            else:
                flat.append(p)
        merged: List[Term] = []
        for p in flat:
            if isinstance(p, Const) and merged and isinstance(merged[-1], Const):
                merged[-1] = Const(merged[-1].value + p.value)
            else:
                merged.append(p)
        if all(isinstance(p, Const) for p in merged):
            return Const(''.join(p.value for p in merged))
        return Template(tuple(merged))

    def compare(self, op: str, a: Term, b: Term) -> Term:
        if isinstance(b, Const) and b.value == 0 and type(b.value) is int and op in ('!=', '==', '>'):
            fl = self._flag_of_bits(a)
            if fl is not None:
                # bits != 0 is the truth value of the flag
                truth = Call(Ext('bool'), (fl,))
                return Op('not', (truth,)) if op == '==' else truth
        if isinstance(a, Ite) and isinstance(b, (Const, EnumMember)) and op in ('is', 'is not', '==', '!='):
            return mk_ite(a.test, self.compare(op, a.a, b), self.compare(op, a.b, b), boolean=True)

        def atom(t):
            return isinstance(t, (Const, EnumMember, ClassRef))
        if atom(a) and atom(b):
            if op in ('is', '=='):
                if isinstance(a, Const) and isinstance(b, Const):
                    return Const(a.value is b.value if op == 'is' and (a.value is None or isinstance(a.value, bool) or b.value is None or isinstance(b.value, bool)) else a.value == b.value)
                return Const(a == b)
            if op in ('is not', '!='):
                if isinstance(a, Const) and isinstance(b, Const):
                    return Const(not (a.value == b.value))
                return Const(a != b)
            if isinstance(a, Const) and isinstance(b, Const) and op in ('<', '<=', '>', '>='):
                try:
                    return Const({'<': a.value < b.value, '<=': a.value <= b.value, '>': a.value > b.value, '>=': a.value >= b.value}[op])
                except TypeError:
                    pass
        if op in ('is', 'is not') and is_const(b, None) and isinstance(a, (New, ClassRef, FuncRef, Lam, Template, TupleT, EnumMember)):
            return Const(op == 'is not')
        if op in ('is', 'is not') and is_const(b, None) and isinstance(a, Attr):
            # a declared field whose annotation is a class of the package (not Optional[...]) is never None
            bt = self.type_of(a.base)
            f = bt.field(a.name) if bt is not None else None
            if f is not None and isinstance(f.annotation, (ast.Name, ast.Constant)) and self.ann_class(f.annotation, f.cls.module) is not None \
                    and not (isinstance(f.default, ast.Constant) and f.default.value is None):
                return Const(op == 'is not')
        if op in ('is', 'is not') and is_const(b, None) and isinstance(a, Call) and isinstance(a.func, FuncRef):
            # the result of a package function whose declared return type is a class (not Optional): never None
            callee = self.callee(a.func)
            if callee is not None and isinstance(callee.node.returns, (ast.Name, ast.Constant)) and self.ann_class(callee.node.returns, callee.module) is not None:
                return Const(op == 'is not')
        if op in ('in', 'not in') and isinstance(a, EnumMember) and not isinstance(b, (TupleT, GlobalVal, DictT)):
            # FLAG.X in flags, X a single bit: the same test as bool(flags & FLAG.X)
            fb = self.flag_bits(a)
            bt = self.type_of(b)
            if fb is not None and len(fb) == 1 and (bt is None or bt.name == a.cls) and not (isinstance(b, Call) and isinstance(b.func, Ext)):
                fb_b = self.flag_bits(b)
                if fb_b is not None:
                    return Const((next(iter(fb)) in fb_b) == (op == 'in'))
                t = Call(Ext('bool'), (Op('&', (b, a)),))
                return t if op == 'in' else Op('not', (t,))
        if op in ('in', 'not in'):
            c = b.value if isinstance(b, GlobalVal) else b
            if isinstance(c, Call) and isinstance(c.func, Ext) and c.func.name in ('frozenset', 'set', 'tuple', 'list') and len(c.args) == 1 and isinstance(c.args[0], TupleT):
                c = c.args[0]
            if isinstance(c, TupleT) and atom(a) and all(atom(x) for x in c.items):
                r = any(a == x for x in c.items)
                return Const(r if op == 'in' else not r)
        return Op(op, (a, b))

    def literal_items(self, lit: Term) -> Optional[Tuple[Term, ...]]:
        """the elements of an iterable whose elements are known: a tuple / list literal, an Enum class (its members in
        definition order), Enum.__members__.values()"""
        if isinstance(lit, GlobalVal):
            lit = lit.value
        if isinstance(lit, TupleT) and lit.kind in ('tuple', 'list') and not any(isinstance(x, Op) and x.op == '*' for x in lit.items):
            return lit.items
        cref = None
        if isinstance(lit, ClassRef):
            cref = lit
        elif isinstance(lit, Call) and isinstance(lit.func, Attr) and lit.func.name == 'values' and isinstance(lit.func.base, Attr) and lit.func.base.name == '__members__' \
                and isinstance(lit.func.base.base, ClassRef) and not lit.args:
            cref = lit.func.base.base
        if cref is not None:
            ci = self.m.classes.get(cref.name)
            if ci is not None and ci.is_enum and ci.enum_members and len(ci.enum_members) <= 40:
                return tuple(EnumMember(ci.name, n) for n in ci.enum_members)
        return None

    def dict_lookup(self, d: DictT, key: Term, default: Term) -> Optional[Term]:
        """a constant table looked up with a key that is not constant: the same as an if-chain over its keys"""
        if not d.items or len(d.items) > 40 or not all(isinstance(k, (Const, EnumMember)) for k, _ in d.items):
            return None
        if isinstance(key, (Const, EnumMember)):
            for k, v in d.items:
                if k == key:
                    return v
            return default
        if isinstance(key, (TupleT, DictT, New, Lam, Template)):
            return None
        res = default
        for k, v in reversed(d.items):
            res = mk_ite(self.compare('==', key, k), v, res)
        return res

    def refold(self, t: Term) -> Term:
        """re-apply constant folding after a substitution"""
        if isinstance(t, Op) and len(t.args) == 2 and t.op in ('is', 'is not', '==', '!=', '<', '<=', '>', '>=', 'in', 'not in'):
            return self.compare(t.op, self.refold(t.args[0]), self.refold(t.args[1]))
        if isinstance(t, Op) and t.op in ('and', 'or'):
            return self.boolop(t.op, [self.refold(a) for a in t.args])
        if isinstance(t, Op) and t.op == 'not' and len(t.args) == 1:
            a = self.refold(t.args[0])
            tv = self.truth(a) if isinstance(a, Const) else None
            return Const(not tv) if tv is not None else Op('not', (a,))
        if isinstance(t, Attr):
            # an attribute of an object whose class is now known: fields, constant properties
            b = self.refold(t.base)
            if self.type_of(b) is not None:
                return self.attr(b, t.name, _State(), 0)
            return Attr(b, t.name) if b is not t.base else t
        return t

    def boolop(self, op: str, vals: List[Term]) -> Term:
        """truth-value abstraction of and/or (the value itself is not tracked)"""
        out: List[Term] = []
        for v in vals:
            tv = self.truth(v)
            if op == 'and':
                if tv is False:
                    return FALSE
                if tv is True:
                    continue
            else:
                if tv is True:
                    return TRUE if (out or isinstance(v, Const)) else v
                if tv is False:
                    continue
            out.append(v)
        if not out:
            return TRUE if op == 'and' else FALSE
        if len(out) == 1:
            return out[0]
        return Op(op, tuple(out))

    def _is_flag_term(self, t: Term) -> bool:
        if isinstance(t, EnumMember):
            ci = self.m.classes.get(t.cls)
            return ci is not None and ci.is_flag
        if isinstance(t, Op) and t.op in ('&', '|', '^') and len(t.args) == 2:
            return self._is_flag_term(t.args[0]) and self._is_flag_term(t.args[1])
        bt = self.type_of(t) if isinstance(t, (Sym, Attr, Call)) else None
        return bt is not None and bt.is_flag

    def _flag_of_bits(self, t: Term) -> Optional[Term]:
        """F when t is F.value for a flag-valued F"""
        t = t.value if isinstance(t, GlobalVal) else t
        if isinstance(t, Attr) and t.name == 'value' and self._is_flag_term(t.base):
            return t.base
        return None

    def binop(self, op: str, a: Term, b: Term) -> Term:
        sa_, sb_ = (a.value if isinstance(a, GlobalVal) else a), (b.value if isinstance(b, GlobalVal) else b)
        if op in ('&', '|', '^'):
            fa_, fb_ = self._flag_of_bits(a), self._flag_of_bits(b)
            if fa_ is not None and fb_ is not None:
                return Attr(Op(op, (fa_, fb_)), 'value')     # integer arithmetic on the bits of two flags
        if op in ('-', '|', '&', '^') and isinstance(sa_, TupleT) and isinstance(sb_, TupleT) and sa_.kind == 'set' and sb_.kind == 'set' \
                and all(isinstance(x, (Const, EnumMember)) for x in sa_.items + sb_.items):
            # algebra of literal sets
            xs, ys = list(sa_.items), list(sb_.items)
            if op == '-':
                out = [x for x in xs if x not in ys]
            elif op == '&':
                out = [x for x in xs if x in ys]
            elif op == '|':
                out = xs + [y for y in ys if y not in xs]
            else:
                out = [x for x in xs if x not in ys] + [y for y in ys if y not in xs]
            return TupleT(tuple(out), 'set')
        if op == '*' and isinstance(sa_, TupleT) and sa_.kind in ('tuple', 'list') and isinstance(sb_, Const) and type(sb_.value) is int and 0 <= sb_.value <= 16:
            return TupleT(sa_.items * sb_.value, sa_.kind)    # (x,) * 4
        if op == '*' and isinstance(sb_, TupleT) and sb_.kind in ('tuple', 'list') and isinstance(sa_, Const) and type(sa_.value) is int and 0 <= sa_.value <= 16:
            return TupleT(sb_.items * sa_.value, sb_.kind)
        if isinstance(a, Const) and isinstance(b, Const):
            try:
                x, y = a.value, b.value
                if op == '+':
                    return Const(x + y)
                if op == '-':
                    return Const(x - y)
                if op == '*':
                    return Const(x * y)
                if op == '/':
                    return Const(x / y)
                if op == '**':
                    return Const(x ** y)
                if op == '//':
                    return Const(x // y)
                if op == '%' and not isinstance(x, str):
                    return Const(x % y)
                if op == '<<' and isinstance(x, int) and isinstance(y, int) and 0 <= y < 256:
                    return Const(x << y)
                if op == '>>' and isinstance(x, int) and isinstance(y, int) and 0 <= y < 256:
                    return Const(x >> y)
                if op in ('&', '|', '^') and isinstance(x, int) and isinstance(y, int):
                    return Const({'&': x & y, '|': x | y, '^': x ^ y}[op])
            except Exception:
                pass
        if op == '+':
            sa = isinstance(a, Template) or (isinstance(a, Const) and isinstance(a.value, str))
            sb = isinstance(b, Template) or (isinstance(b, Const) and isinstance(b.value, str))
            if sa or sb:
                def wrap(t):
                    if isinstance(t, Template) or (isinstance(t, Const) and isinstance(t.value, str)):
                        return t
                    return Fmt(t, 'concat', '')
                return self.template([wrap(a), wrap(b)])
            if isinstance(a, TupleT) and isinstance(b, TupleT) and a.kind == b.kind:
                return TupleT(a.items + b.items, a.kind)
        if op in ('&', '|') and isinstance(a, EnumMember) and isinstance(b, EnumMember):
            return Op(op, (a, b))
        return Op(op, (a, b))

    # ------------------------------------------------------------ attribute
    def enum_value(self, em: EnumMember, depth: int) -> Term:
        ci = self.m.classes.get(em.cls)
        if ci is None or em.name not in ci.enum_members:
            return Attr(em, 'value')
        key = (f'enum:{ci.name}', em.name)
        if key in self._const_memo:
            return self._const_memo[key]
        if key in self._const_busy:
            return Opaque(f'cyclic:{em!r}')
        self._const_busy.add(key)
        try:
            st = _State()
            # names of earlier members are visible inside the class body
            for n in ci.enum_members:
                if n == em.name:
                    break  # only members defined earlier in the class body are visible
                st.env[n] = EnumMember(ci.name, n)
            v = self.expr(ci.enum_members[em.name], st, ci.module, None, depth)
        finally:
            self._const_busy.discard(key)
        self._const_memo[key] = v
        return v

    def attr(self, base: Term, name: str, st: _State, depth: int, store: bool = False) -> Term:
        if isinstance(base, Raises):
            return base   # the exception propagates through the expression
        name = self.m.canon(name)   # a renamed private anchor is presented under its recorded name
        key = Attr(base, name)
        if key in self.assume and not store:
            return self.assume[key]
        if isinstance(base, Ite) and not store:
            return mk_ite(base.test, self.attr(base.a, name, st, depth), self.attr(base.b, name, st, depth))
        if isinstance(base, ClassRef):
            ci = self.m.classes.get(base.name)
            if ci is not None:
                if ci.is_enum and name in ci.enum_members:
                    return EnumMember(ci.name, name)
                m = ci.resolve(name)
                if m is not None and m.kind in ('classmethod', 'staticmethod'):
                    return BoundMethod(base, m.key, m.name)
                if m is not None:
                    return BoundMethod(base, m.key, m.name)  # unbound access, e.g. HplBinaryOperator.conjunction
                for c in ci.mro():
                    if name in c.class_assigns:
                        return self.expr(c.class_assigns[name], _State(), c.module, None, depth)
            return key
        if isinstance(base, EnumMember):
            ci = self.m.classes.get(base.cls)
            if ci is not None:
                m = ci.resolve(name)
                if m is not None and m.kind == 'property':
                    r = self.inline_call(m, base, (), (), st, depth)
                    if r is not None:
                        return r
                if m is not None:
                    return BoundMethod(base, m.key, m.name)
                if name == 'value' and ci.is_flag:
                    return key      # the bits of a flag: kept symbolic, (x.value & F.M.value) is read as (x & F.M).value
                if name == 'value':
                    return self.enum_value(base, depth)
                if name == 'name':
                    return Const(base.name)
            return key
        if isinstance(base, Call) and isinstance(base.func, Ext) and base.func.name == 'super' and not base.args and '__class__' in st.env and 'self' in st.env:
            cur = self.m.classes.get(st.env['__class__'].name) if isinstance(st.env['__class__'], ClassRef) else None
            if cur is not None:
                for c in cur.mro()[1:]:
                    if name in c.methods:
                        return BoundMethod(Op('super', (st.env['self'],)), c.methods[name].key, name)
        if isinstance(base, Ext):
            return Ext(f'{base.name}.{name}')
        if isinstance(base, New) and not store and _field_key(base, name) in st.env:
            return st.env[_field_key(base, name)]      # stored to since the record was built
        if isinstance(base, New) and not store:
            v = base.get(name)
            if v is not None and not isinstance(v, Default):
                return v
            if isinstance(v, Default):
                ci = self.m.classes.get(base.cls)
                f = ci.field(name) if ci is not None else None
                fac = f.factory if f is not None and f.factory is not None else \
                    (f.default.args[0] if f is not None and isinstance(f.default, ast.Call) and isinstance(f.default.func, ast.Name) and f.default.func.id == 'Factory' and len(f.default.args) == 1 else None)
                if isinstance(fac, ast.Name) and fac.id in ('dict', 'list') and ci.resolve('__attrs_post_init__') is None:
                    return DictT(()) if fac.id == 'dict' else TupleT((), 'list')      # a fresh empty container per instance
                # a plain (immutable, constant) default of a field that the constructor call left out
                ci = self.m.classes.get(base.cls)
                f = ci.field(name) if ci is not None else None
                if f is not None and f.default is not None and f.factory is None and isinstance(f.default, (ast.Constant, ast.Tuple)) \
                        and not f.kwargs.get('converter') and ci.resolve('__attrs_post_init__') is None:
                    return self.expr(f.default, _State(), ci.module, None, depth)
        bt = self.type_of(base)
        if bt is not None:
            if bt.field(name) is not None:
                return key
            m = bt.resolve(name)
            if m is not None:
                if m.kind == 'property':
                    virtual = bool(self.m.overrides(bt, name)) and not isinstance(base, New)
                    if (not virtual or self.virtual_inline) and self.inline(m, depth):
                        r = self.inline_call(m, base, (), (), st, depth)
                        if r is not None:
                            return r
                    return key
                return BoundMethod(base, m.key, m.name)
            # a class-level constant read through the instance (no field, no method of that name)
            if not store:
                for c in bt.mro():
                    if name in c.class_assigns:
                        if any(name in sc.class_assigns or sc.field(name) is not None for sc in self.m.subclasses(bt, strict=True)):
                            break   # a subclass may say otherwise
                        cv = self.expr(c.class_assigns[name], _State(), c.module, None, depth)
                        if isinstance(cv, Call) and isinstance(cv.func, Ext) and cv.func.name == 'property' and len(cv.args) >= 1 and not cv.kwargs:
                            # name = property(getter): reading it through an instance calls the getter on the instance
                            return self.apply(cv.args[0], (base,), (), st, depth)
                        return cv
            # defined only in subclasses
            return key
        return key

    # ---------------------------------------------------------------- calls
    def _construct_plain(self, ci: ClassInfo, args: Tuple[Term, ...], kwargs: Tuple[Tuple[str, Term], ...], depth: int) -> Optional[Term]:
        """An instance of a plain class whose __init__ does nothing but store attributes (`self.x = <value>`): a record
        with those fields.  Any other __init__ (calls, conditions, inherited initialisers) stays an opaque constructor call."""
        init = ci.methods.get('__init__')
        if init is None or ci.external_bases or len([b for b in ci.mro() if b is not ci and b.methods.get('__init__')]) > 0 or depth > 6:
            return None
        body = [st_ for st_ in init.node.body if not (isinstance(st_, ast.Expr) and isinstance(st_.value, ast.Constant))]
        if not body or not all(isinstance(st_, (ast.Assign, ast.AnnAssign)) and isinstance((st_.targets[0] if isinstance(st_, ast.Assign) else st_.target), ast.Attribute)
                               and isinstance((st_.targets[0] if isinstance(st_, ast.Assign) else st_.target).value, ast.Name)
                               and (st_.targets[0] if isinstance(st_, ast.Assign) else st_.target).value.id == 'self' for st_ in body):
            return None
        me = Sym('self', ci.name)
        bound = self.bind_call(init, me, args, kwargs, depth)
        if bound is None:
            return None
        if init.key in self._stack:
            return None
        self._stack.append(init.key)
        try:
            outs = self.run(init, bound, depth + 1)
        finally:
            self._stack.pop()
        if len(outs) != 1 or outs[0].kind != 'fall' or outs[0].guards:
            return None
        fields: Dict[str, Term] = {}
        for e in outs[0].effects:
            if isinstance(e, Store) and isinstance(e.target, Attr) and e.target.base == me:
                fields[e.target.name] = e.value
            else:
                return None
        return New(ci.name, tuple(fields.items()))

    def construct(self, ci: ClassInfo, args: Tuple[Term, ...], kwargs: Tuple[Tuple[str, Term], ...]) -> Term:
        pos, kwo = ci.init_params()
        bound: Dict[str, Term] = {}
        if len(args) > len(pos):
            return Call(ClassRef(ci.name), args, kwargs)
        for f, v in zip(pos, args):
            bound[f.name] = v
        names = {f.name for f in pos + kwo}
        for k, v in kwargs:
            k2 = k
            if k2 not in names and ('_' + k2) in names:
                k2 = '_' + k2  # attrs strips the leading underscore of private fields
            if k2 not in names:
                return Call(ClassRef(ci.name), args, kwargs)
            bound[k2] = v
        fields = []
        for f in ci.fields():
            if f.name in bound:
                fields.append((f.name, bound[f.name]))
            else:
                fields.append((f.name, Default(ci.name, f.name)))
        return New(ci.name, tuple(fields))

    def call(self, e: ast.Call, st: _State, mod, fi, depth) -> Term:
        func = self.expr(e.func, st, mod, fi, depth)
        if self._loop_depth == 0 and isinstance(e.func, ast.Attribute) and e.func.attr == 'setdefault' and isinstance(e.func.value, ast.Name) \
                and len(e.args) == 2 and not e.keywords and not any(isinstance(a, ast.Starred) for a in e.args):
            cur = st.env.get(e.func.value.id)
            if isinstance(cur, DictT) and all(isinstance(k0, (Const, EnumMember)) for k0, _ in cur.items):
                # straight-line code: d.setdefault(k, v) with an evident key keeps the first value stored under k
                k = self.expr(e.args[0], st, mod, fi, depth)
                v = self.expr(e.args[1], st, mod, fi, depth)
                if isinstance(k, (Const, EnumMember)):
                    old_v = next((v0 for k0, v0 in cur.items if k0 == k), None)
                    if old_v is not None:
                        return old_v
                    new_d = DictT(cur.items + ((k, v),))
                    for name in [n_ for n_, val in st.env.items() if val is cur]:
                        st.env[name] = new_d
                    return v
        if self._loop_depth == 0 and isinstance(e.func, ast.Attribute) and e.func.attr in ('append', 'extend') and isinstance(e.func.value, ast.Name) \
                and len(e.args) == 1 and not e.keywords and not isinstance(e.args[0], ast.Starred):
            cur = st.env.get(e.func.value.id)
            if isinstance(cur, TupleT) and cur.kind == 'list' and not any(isinstance(x, Op) and x.op == '*' for x in cur.items):
                # straight-line code: the list value after the call (every name bound to this very list sees it)
                v = self.expr(e.args[0], st, mod, fi, depth)
                new = None
                if e.func.attr == 'append':
                    new = TupleT(cur.items + (v,), 'list')
                elif isinstance(v, TupleT) and not any(isinstance(x, Op) and x.op == '*' for x in v.items):
                    new = TupleT(cur.items + v.items, 'list')
                if new is not None:
                    for k in [k for k, val in st.env.items() if val is cur]:
                        st.env[k] = new
                    c = Call(func, (v,), ())
                    st.effects = st.effects + (c,)
                    return NONE
        args: List[Term] = []
        star = False
        for a in e.args:
            if isinstance(a, ast.Starred):
                v = self._as_tuple(self.expr(a.value, st, mod, fi, depth), st, depth)    # f(*record) of a NamedTuple passes its fields
                if isinstance(v, TupleT):
                    args.extend(v.items)
                else:
                    args.append(Op('*', (v,)))
                    star = True
            else:
                args.append(self.expr(a, st, mod, fi, depth))
        kwargs: List[Tuple[str, Term]] = []
        for kw in e.keywords:
            v = self.expr(kw.value, st, mod, fi, depth)
            if kw.arg is None:
                if isinstance(v, DictT) and all(isinstance(k, Const) for k, _ in v.items):
                    kwargs.extend((k.value, x) for k, x in v.items)
                else:
                    kwargs.append(('**', v))
                    star = True
            else:
                kwargs.append((kw.arg, v))
        return self.apply(func, tuple(args), tuple(kwargs), st, depth, star)

    def apply(self, func: Term, args: Tuple[Term, ...], kwargs: Tuple[Tuple[str, Term], ...], st: _State, depth: int, star: bool = False) -> Term:
        if isinstance(func, Raises):
            return func
        for a_ in args:
            if isinstance(a_, Raises):
                return a_
        if isinstance(func, Ite):
            return mk_ite(func.test, self.apply(func.a, args, kwargs, st, depth, star), self.apply(func.b, args, kwargs, st, depth, star))
        if isinstance(func, ClassRef):
            ci = self.m.classes.get(func.name)
            if ci is not None and not star and (ci.is_record or any(c.is_record for c in ci.mro())):
                self.resolved_calls += 1
                return self.construct(ci, args, kwargs)
            if ci is not None and not star and not ci.is_enum:
                plain = self._construct_plain(ci, args, kwargs, depth)
                if plain is not None:
                    self.resolved_calls += 1
                    return plain
            self.resolved_calls += 1
            return Call(func, args, kwargs)
        if isinstance(func, BoundMethod):
            m = self._fn_by_key.get(func.key)
            if m is not None:
                self.resolved_calls += 1
                recv = func.recv
                is_super = isinstance(recv, Op) and recv.op == 'super'
                if is_super:
                    recv = recv.args[0]
                if isinstance(recv, ClassRef) and m.kind in ('method', 'property'):
                    # unbound method called with explicit self
                    if args:
                        recv, args = args[0], args[1:]
                    else:
                        return Call(func, args, kwargs)
                if m.kind == 'staticmethod':
                    recv_arg = None
                else:
                    recv_arg = recv
                bt = self.type_of(recv) if not isinstance(recv, ClassRef) else None
                virtual = False
                if bt is not None and not isinstance(recv, New) and not is_super:
                    virtual = bool(self.m.overrides(bt, m.name))
                if not star and (not virtual or self.virtual_inline) and self.inline(m, depth):
                    if m.kind == 'staticmethod':
                        r = self.inline_call(m, None, args, kwargs, st, depth)
                    else:
                        r = self.inline_call(m, recv_arg, args, kwargs, st, depth)
                    if r is not None:
                        if m.kind != 'property':
                            st.trace = st.trace + (Call(func, args, kwargs),)
                        return r
            c = Call(func, args, kwargs)
            st.trace = st.trace + (c,)
            return c
        if isinstance(func, FuncRef):
            m = self._fn_by_key.get(func.key)
            if m is not None:
                self.resolved_calls += 1
                if not star and getattr(m, '_is_raw', False) and m.cls is not None and m.kind == 'method' and args:
                    # the undecorated method, called by its wrapper with the instance as first argument
                    r = self.inline_call(m, args[0], args[1:], kwargs, st, depth)
                    if r is not None:
                        return r
                if not star and self.inline(m, depth):
                    r = self.inline_call(m, None, args, kwargs, st, depth)
                    if r is not None:
                        st.trace = st.trace + (Call(func, args, kwargs),)
                        return r
            c = Call(func, args, kwargs)
            st.trace = st.trace + (c,)
            return c
        if isinstance(func, Ext):
            self.resolved_calls += 1
            prev = (self._cur_state, self._cur_depth)
            self._cur_state, self._cur_depth = st, depth
            try:
                return self.ext_call(func, args, kwargs)
            finally:
                self._cur_state, self._cur_depth = prev
        if isinstance(func, New) and not star:
            # an instance of a record class with __call__ (a validator object, a strategy object)
            bm = self.attr(func, '__call__', st, depth)
            if isinstance(bm, BoundMethod):
                return self.apply(bm, args, kwargs, st, depth)
        if isinstance(func, Lam) and not star:
            self.resolved_calls += 1
            if func.closure is not None:
                node, cenv, cmod, cfi = func.closure
                pseudo = FunctionInfo(node.name, (cfi.qualname + '.' if cfi is not None else '') + f'<locals>.{node.name}@{node.lineno}', cmod, node, None, 'function')
                if pseudo.key not in self._stack and depth < 8 and default_inline(pseudo, depth):
                    r = self.inline_call(pseudo, None, args, kwargs, st, depth, base_env=cenv)
                    if r is not None:
                        return r
            return Call(func, args, kwargs)
        if isinstance(func, Attr) and func.name == 'format' and isinstance(func.base, Const) and isinstance(func.base.value, str) and not star:
            # 'text {name} {0}'.format(...) is the f-string with the arguments spliced in
            import string
            try:
                pieces = list(string.Formatter().parse(func.base.value))
            except ValueError:
                pieces = None
            if pieces is not None:
                parts: List[Term] = []
                auto = 0
                ok = True
                kw = dict(kwargs)
                for lit, fname, spec, conv in pieces:
                    if lit:
                        parts.append(Const(lit))
                    if fname is None:
                        continue
                    if fname == '':
                        key: Any = auto
                        auto += 1
                    elif fname.isdigit():
                        key = int(fname)
                    else:
                        key = fname
                    if isinstance(key, int) and key < len(args):
                        v = args[key]
                    elif isinstance(key, str) and key in kw:
                        v = kw[key]
                    else:
                        ok = False
                        break
                    parts.append(Fmt(v, conv or '', spec or ''))
                if ok:
                    self.resolved_calls += 1
                    return self.template(parts)
        if isinstance(func, Attr) and func.name == 'index' and not star and not kwargs and len(args) == 1 and isinstance(args[0], (Const, EnumMember)):
            seq = func.base.value if isinstance(func.base, GlobalVal) else func.base
            if isinstance(seq, TupleT) and seq.kind in ('tuple', 'list') and all(isinstance(x, (Const, EnumMember)) for x in seq.items) and args[0] in seq.items:
                self.resolved_calls += 1
                return Const(seq.items.index(args[0]))      # position in an evident sequence
        if isinstance(func, Attr) and func.name == 'get' and not star and not kwargs and 1 <= len(args) <= 2:
            bd = func.base.value if isinstance(func.base, GlobalVal) else func.base
            if isinstance(bd, DictT):
                r = self.dict_lookup(bd, args[0], args[1] if len(args) == 2 else NONE)
                if r is not None:
                    self.resolved_calls += 1
                    return r
        if isinstance(func, Call) and isinstance(func.func, Ext) and not star and not kwargs and len(args) == 1 and func.args:
            # f = operator.methodcaller('m', *a) / attrgetter('x') / itemgetter(i);  f(obj)
            n = func.func.name.split('.')[-1]
            if n == 'methodcaller' and isinstance(func.args[0], Const) and isinstance(func.args[0].value, str):
                self.resolved_calls += 1
                return self.apply(self.attr(args[0], func.args[0].value, st, depth), tuple(func.args[1:]), tuple(func.kwargs), st, depth)
            if n == 'attrgetter' and len(func.args) == 1 and isinstance(func.args[0], Const) and isinstance(func.args[0].value, str) \
                    and all(part.isidentifier() for part in func.args[0].value.split('.')):
                self.resolved_calls += 1
                res = args[0]
                for part in func.args[0].value.split('.'):    # attrgetter('a.b')(x) is x.a.b
                    res = self.attr(res, part, st, depth)
                return res
            if n == 'itemgetter' and len(func.args) == 1 and isinstance(func.args[0], Const) and isinstance(args[0], TupleT) and isinstance(func.args[0].value, int) \
                    and -len(args[0].items) <= func.args[0].value < len(args[0].items):
                self.resolved_calls += 1
                return args[0].items[func.args[0].value]
        if isinstance(func, Attr):
            # method on an untyped / external receiver
            bt = self.type_of(func.base)
            if bt is None:
                self.unresolved_calls.append(repr(func))
            else:
                self.resolved_calls += 1
            return Call(func, args, kwargs)
        self.unresolved_calls.append(repr(func))
        return Call(func, args, kwargs)

    def ext_call(self, func: Ext, args, kwargs) -> Term:
        n = func.name
        if n.split('.')[-1] == 'check_type' and n.startswith('typeguard') and len(args) == 2 and not kwargs:
            return args[0]    # typeguard.check_type(value, type) returns the value (or raises, like any external call)
        if n == 'float' and len(args) == 1 and isinstance(args[0], Const) and isinstance(args[0].value, (str, int, float)):
            try:
                return Const(float(args[0].value))
            except ValueError:
                pass
        _OPERATOR_FUNCS = {'operator.add': '+', 'operator.sub': '-', 'operator.mul': '*', 'operator.truediv': '/', 'operator.floordiv': '//', 'operator.mod': '%',
                           'operator.pow': '**', 'operator.and_': '&', 'operator.or_': '|', 'operator.xor': '^'}
        if n in _OPERATOR_FUNCS and len(args) == 2 and not kwargs:
            return self.binop(_OPERATOR_FUNCS[n], args[0], args[1])      # operator.add(a, b) is a + b
        _OPERATOR_CMPS = {'operator.eq': '==', 'operator.ne': '!=', 'operator.lt': '<', 'operator.le': '<=', 'operator.gt': '>', 'operator.ge': '>=', 'operator.is_': 'is', 'operator.is_not': 'is not'}
        if n in _OPERATOR_CMPS and len(args) == 2 and not kwargs:
            return self.compare(_OPERATOR_CMPS[n], args[0], args[1])
        if n == 'zip' and len(args) >= 2 and not kwargs:
            # zip of evident sequences (literals, NamedTuple records) is the tuple of their columns
            cols = [self._as_tuple(a.value if isinstance(a, GlobalVal) else a, self._cur_state or _State(), self._cur_depth or 0) for a in args]
            if all(isinstance(c, TupleT) and c.kind in ('tuple', 'list') and not any(isinstance(x, Op) and x.op == '*' for x in c.items) for c in cols) and len({len(c.items) for c in cols}) == 1:
                return TupleT(tuple(TupleT(tuple(c.items[i] for c in cols)) for i in range(len(cols[0].items))), 'tuple')
        if n == 'enumerate' and len(args) == 1 and not kwargs and isinstance(args[0], TupleT) and args[0].kind in ('tuple', 'list') \
                and not any(isinstance(x, Op) and x.op == '*' for x in args[0].items):
            return TupleT(tuple(TupleT((Const(i), x)) for i, x in enumerate(args[0].items)), 'tuple')
        if n == 'tuple' and len(args) == 1 and isinstance(args[0], TupleT):
            return TupleT(args[0].items, 'tuple')
        if n == 'tuple' and len(args) == 1 and isinstance(args[0], Op) and args[0].op == '+' and any(isinstance(x, Call) or isinstance(x, TupleT) for x in args[0].args):
            return args[0]
        if n == 'tuple' and not args:
            return TupleT(())
        if n in ('itertools.chain', 'chain') and args and not kwargs and all(not (isinstance(a, Op) and a.op == '*') for a in args):
            res = args[0]
            for a in args[1:]:
                res = self.binop('+', res, a)
            return res if len(args) > 1 else Call(func, args, kwargs)
        if n in ('itertools.chain.from_iterable', 'chain.from_iterable') and len(args) == 1 and isinstance(args[0], TupleT) and args[0].items:
            res = args[0].items[0]
            for a in args[0].items[1:]:
                res = self.binop('+', res, a)
            return res
        if n in ('functools.reduce', 'reduce') and len(args) in (2, 3) and isinstance(args[0], Ext) and isinstance(args[1], TupleT) and args[1].items \
                and args[0].name.split('.')[-1] in ('or_', 'and_', 'add', 'mul', '__or__', '__and__', '__add__'):
            opn = {'or_': '|', '__or__': '|', 'and_': '&', '__and__': '&', 'add': '+', '__add__': '+', 'mul': '*'}[args[0].name.split('.')[-1]]
            items = list(args[1].items)
            res = args[2] if len(args) == 3 else items.pop(0)
            for a in items:
                res = self.binop(opn, res, a)
            return res
        if n in ('functools.reduce', 'reduce') and len(args) in (2, 3) and not kwargs and isinstance(args[0], (Lam, FuncRef, BoundMethod)) and isinstance(args[1], TupleT) \
                and args[1].kind in ('tuple', 'list') and len(args[1].items) <= 8 and not any(isinstance(x, Op) and x.op == '*' for x in args[1].items) \
                and (len(args) == 3 or args[1].items) and self._cur_state is not None:
            # a fold over a short literal sequence: the function applied step by step
            items = list(args[1].items)
            res = args[2] if len(args) == 3 else items.pop(0)
            for a in items:
                res = self.apply(args[0], (res, a), (), self._cur_state, self._cur_depth)
            return res
        if n == 'getattr' and len(args) == 2 and isinstance(args[1], Const) and isinstance(args[1].value, str) and self._cur_state is not None:
            return self.attr(args[0], args[1].value, self._cur_state, self._cur_depth)
        if n == 'map' and len(args) == 2 and not kwargs and self._cur_state is not None:
            # map(f, xs) == (f(x) for x in xs)
            f, xs = args
            if isinstance(xs, TupleT) and xs.kind in ('tuple', 'list') and len(xs.items) <= 8 and not any(isinstance(x, Op) and x.op == '*' for x in xs.items):
                return TupleT(tuple(self.apply(f, (x,), (), self._cur_state, self._cur_depth) for x in xs.items), 'tuple')
            if isinstance(f, (Lam, FuncRef, BoundMethod, ClassRef)) or (isinstance(f, Call) and isinstance(f.func, Ext)) or (isinstance(f, Ext) and f.name in ('str', 'repr', 'int', 'float', 'bool')):
                if not (isinstance(f, Ext) and f.name == 'str'):   # map(str, xs) is read by the printer rules as it is
                    each = Sym('each:_m')
                    return Comp('gen', self.apply(f, (each,), (), self._cur_state, self._cur_depth), (('_m', xs, ()),))
        if n.split('.')[-1] == 'MappingProxyType' and len(args) == 1 and not kwargs:
            return args[0]      # a read-only view: every read the rules model goes through to the mapping
        if n in ('frozenset', 'set') and len(args) == 1 and isinstance(args[0], ClassRef):
            ci = self.m.classes.get(args[0].name)
            if ci is not None and ci.is_enum and not ci.is_flag:
                return TupleT(tuple(EnumMember(ci.name, m) for m in ci.enum_members), 'set')
        if n in ('frozenset', 'set') and len(args) == 1 and isinstance(args[0], TupleT) and all(isinstance(x, (Const, EnumMember)) for x in args[0].items):
            return TupleT(args[0].items, 'set')
        if n in ('tuple', 'list') and len(args) == 1 and isinstance(args[0], Comp) and len(args[0].gens) == 1 and args[0].kind in ('gen', 'list'):
            # a (filtered) comprehension over a short literal: one tuple per combination of filter outcomes
            tgt, it, ifs = args[0].gens[0]
            items = it.items if isinstance(it, TupleT) and it.kind in ('tuple', 'list') and not any(isinstance(x, Op) and x.op == '*' for x in it.items) else None
            if items is not None and len(items) <= 3 and tgt.isidentifier():
                each = Sym(f'each:{tgt}')

                def build(i: int, acc: Tuple[Term, ...]) -> Term:
                    if i == len(items):
                        return TupleT(acc, n)
                    x = items[i]
                    elt = subst(args[0].elt, {each: x})
                    conds = [self.refold(subst(c, {each: x})) for c in ifs]
                    cond = self.boolop('and', conds) if conds else TRUE
                    tv = self.truth(cond) if isinstance(cond, Const) else None
                    if tv is True:
                        return build(i + 1, acc + (elt,))
                    if tv is False:
                        return build(i + 1, acc)
                    return mk_ite(cond, build(i + 1, acc + (elt,)), build(i + 1, acc))
                return build(0, ())
        if n == 'len' and len(args) == 1 and isinstance(args[0], TupleT) and not any(isinstance(x, Op) and x.op == '*' for x in args[0].items):
            return Const(len(args[0].items))
        if n in ('any', 'all') and len(args) == 1 and isinstance(args[0], TupleT) and len(args[0].items) <= 8 and not any(isinstance(x, Op) and x.op == '*' for x in args[0].items):
            if not args[0].items:
                return Const(n == 'all')
            return self.boolop('or' if n == 'any' else 'and', list(args[0].items))
        if n in ('any', 'all') and len(args) == 1 and isinstance(args[0], Comp) and len(args[0].gens) == 1:
            tgt, it, ifs = args[0].gens[0]
            items = it.items if isinstance(it, TupleT) and not any(isinstance(x, Op) and x.op == '*' for x in it.items) else None
            if items is not None and not ifs and len(items) <= 6 and tgt.isidentifier():
                each = Sym(f'each:{tgt}')
                vals = [subst(args[0].elt, {each: x}) for x in items]
                if not vals:
                    return Const(n == 'all')
                return self.boolop('or' if n == 'any' else 'and', vals)
        if n == 'bool' and len(args) == 1:
            tv = self.truth(args[0])
            if tv is not None and not isinstance(args[0], (New, ClassRef, FuncRef, Lam)):
                return Const(tv)
        if n == 'str' and len(args) == 1:
            a = args[0]
            if isinstance(a, Const) and isinstance(a.value, str):
                return a
            if isinstance(a, Template):
                return a
            return Template((Fmt(a, 's', ''),))
        if n == 'isinstance' and len(args) == 2 and all(isinstance(t, ClassRef) and t.name in self.m.classes for t in (args[1].items if isinstance(args[1], TupleT) else (args[1],))):
            # values whose kind is evident: an enum member is an instance of its enum class only; functions, lambdas
            # and the callables built by operator.attrgetter & co. are instances of no class of the package
            targets = args[1].items if isinstance(args[1], TupleT) else (args[1],)
            a0 = args[0]
            if isinstance(a0, EnumMember):
                ec = self.m.classes.get(a0.cls)
                if ec is not None:
                    names = {x.name for x in ec.mro()}
                    return Const(any(t.name in names for t in targets))
            if isinstance(a0, (Lam, FuncRef)) or (isinstance(a0, Call) and isinstance(a0.func, Ext) and a0.func.name.split('.')[-1] in ('attrgetter', 'itemgetter', 'methodcaller', 'partial')):
                return Const(False)
            if isinstance(a0, Const) and isinstance(a0.value, (str, int, float, bool, type(None))):
                tcs = [self.m.classes.get(t.name) for t in targets]
                if all(tc is not None and not tc.external_bases for tc in tcs):
                    return Const(False)
        if n == 'isinstance' and len(args) == 2 and isinstance(args[0], New):
            c = self.m.classes.get(args[0].cls)
            targets = args[1].items if isinstance(args[1], TupleT) else (args[1],)
            if c is not None and all(isinstance(t, ClassRef) for t in targets):
                names = {x.name for x in c.mro()}
                return Const(any(t.name in names for t in targets))
        return Call(func, args, kwargs)


def _split_product(gens):
    """`for (a, b) in itertools.product(xs, ys)` == `for a in xs for b in ys`"""
    out = []
    for tgt, it, ifs in gens:
        names = [x.strip() for x in tgt.strip('()').split(',')] if ',' in tgt else None
        if names and isinstance(it, Call) and isinstance(it.func, Ext) and it.func.name in ('itertools.product', 'product') and len(it.args) == len(names) and not it.kwargs and all(n.isidentifier() for n in names):
            for i, (n, a) in enumerate(zip(names, it.args)):
                out.append((n, a, ifs if i == len(names) - 1 else ()))
        else:
            out.append((tgt, it, ifs))
    return out


def subst(t: Term, m: Dict[Term, Term]) -> Term:
    """structural substitution of sub-terms"""
    if t in m:
        return m[t]
    if isinstance(t, Attr):
        return Attr(subst(t.base, m), t.name)
    if isinstance(t, BoundMethod):
        return BoundMethod(subst(t.recv, m), t.key, t.name)
    if isinstance(t, Call):
        return Call(subst(t.func, m), tuple(subst(a, m) for a in t.args), tuple((k, subst(v, m)) for k, v in t.kwargs))
    if isinstance(t, New):
        return New(t.cls, tuple((k, subst(v, m)) for k, v in t.fields))
    if isinstance(t, TupleT):
        return TupleT(tuple(subst(a, m) for a in t.items), t.kind)
    if isinstance(t, Sub):
        return Sub(subst(t.base, m), subst(t.index, m))
    if isinstance(t, Op):
        return Op(t.op, tuple(subst(a, m) for a in t.args))
    if isinstance(t, Ite):
        return Ite(subst(t.test, m), subst(t.a, m), subst(t.b, m))
    if isinstance(t, Fmt):
        return Fmt(subst(t.value, m), t.conv, t.spec)
    if isinstance(t, Template):
        return Template(tuple(subst(a, m) for a in t.parts))
    if isinstance(t, Comp):
        return Comp(t.kind, subst(t.elt, m), tuple((tg, subst(it, m), tuple(subst(c, m) for c in ifs)) for tg, it, ifs in t.gens))
    return t


def _is_mutable_container(v: Term) -> bool:
    if isinstance(v, TupleT) and v.kind in ('list', 'set'):
        return True
    if isinstance(v, DictT):
        return True
    if isinstance(v, Comp) and v.kind in ('list', 'set', 'dict'):
        return True
    if isinstance(v, Call) and isinstance(v.func, Ext) and v.func.name in ('set', 'list', 'dict', 'collections.defaultdict', 'collections.OrderedDict', 'collections.deque'):
        return True
    return False


def unglobal(t: Term) -> Term:
    return t.value if isinstance(t, GlobalVal) else t


def guards_repr(gs: Tuple[Guard, ...]) -> str:
    return ' & '.join(('' if pol else 'not ') + repr(t) for t, pol in gs) or 'true'


def norm_guard(g: Guard) -> Guard:
    t, pol = g
    while isinstance(t, Op) and t.op == 'not' and len(t.args) == 1:
        t, pol = t.args[0], not pol
    return (t, pol)


def norm_guards(gs: Tuple[Guard, ...]) -> Tuple[Guard, ...]:
    return tuple(norm_guard(g) for g in gs)


def reduce_guards(gs: Tuple[Guard, ...]) -> Tuple[Guard, ...]:
    """flat_guards, plus unit propagation: facts already on the path simplify later compound guards
    (not (a and b and c) with a, b known true leaves not c; (a or b) with a known false leaves b)"""
    known: Dict[Term, bool] = {}
    out: List[Guard] = []

    def add(t: Term, pol: bool):
        while isinstance(t, Op) and t.op == 'not' and len(t.args) == 1:
            t, pol = t.args[0], not pol
        v = eval_bool(t, known)
        if v is not None and not isinstance(t, Const):
            if v == pol:
                return   # already implied
        if isinstance(t, Op) and len(t.args) > 1 and ((t.op == 'and' and pol) or (t.op == 'or' and not pol)):
            # a conjunction of plain tests (`x.is_value and x.is_literal and x.value is True`) is one test for the rules;
            # one that mixes in negations or other compounds is a list of separate facts
            if any(isinstance(a, Op) and a.op in ('not', 'and', 'or') for a in t.args):
                for a in t.args:
                    add(a, pol)
                return
        if isinstance(t, Op) and len(t.args) > 1 and ((t.op == 'and' and not pol) or (t.op == 'or' and pol)):
            # drop the parts whose value is known and cannot decide the whole
            neutral = (t.op == 'and')   # in `not (a and b)`, a known-true part is neutral; in (a or b), a known-false part
            rest = [a for a in t.args if eval_bool(a, known) is not neutral]
            if len(rest) == 1:
                add(rest[0], pol)
                return
            if len(rest) < len(t.args) and rest:
                t = Op(t.op, tuple(rest))
        known[t] = pol
        out.append((t, pol))
    for t, pol in gs:
        add(t, pol)
    return tuple(out)


def implied_literals(gs: Tuple[Guard, ...], max_atoms: int = 10, mark_inconsistent: bool = False) -> Tuple[Guard, ...]:
    """The atomic tests whose value is the same in every truth assignment that satisfies all the guards (a small
    truth table over the atoms of the and/or/not structure; `a is not b` is the negation of the atom `a is b`, and
    likewise != / not in).  Guards that are atoms already are kept; an inconsistent list gives ()."""
    NEG = {'is not': 'is', '!=': '==', 'not in': 'in'}

    def atomise(t: Term):
        """-> nested ('atom', term) / ('not', x) / ('and', xs) / ('or', xs)"""
        if isinstance(t, Op) and t.op == 'not' and len(t.args) == 1:
            return ('not', atomise(t.args[0]))
        if isinstance(t, Op) and t.op in ('and', 'or') and t.args:
            return (t.op, tuple(atomise(a) for a in t.args))
        if isinstance(t, Op) and t.op in NEG and len(t.args) == 2:
            return ('not', ('atom', Op(NEG[t.op], t.args)))
        if isinstance(t, Const):
            return ('const', bool(t.value))
        return ('atom', t)
    forms = [(atomise(t), pol) for t, pol in gs]
    atoms: List[Term] = []

    def collect(f):
        if f[0] == 'atom':
            if f[1] not in atoms:
                atoms.append(f[1])
        elif f[0] == 'not':
            collect(f[1])
        elif f[0] in ('and', 'or'):
            for x in f[1]:
                collect(x)
    for f, _ in forms:
        collect(f)
    if len(atoms) > max_atoms:
        return norm_guards(gs)

    def ev(f, val):
        if f[0] == 'atom':
            return val[f[1]]
        if f[0] == 'const':
            return f[1]
        if f[0] == 'not':
            return not ev(f[1], val)
        if f[0] == 'and':
            return all(ev(x, val) for x in f[1])
        return any(ev(x, val) for x in f[1])
    fixed: Dict[Term, Optional[bool]] = {}
    first = True
    for bits in range(1 << len(atoms)):
        val = {a: bool(bits >> i & 1) for i, a in enumerate(atoms)}
        if all(ev(f, val) == pol for f, pol in forms):
            if first:
                fixed = dict(val)
                first = False
            else:
                for a in atoms:
                    if fixed.get(a) is not None and fixed[a] != val[a]:
                        fixed[a] = None
    if first:
        return (_INCONSISTENT,) if mark_inconsistent else ()
    return tuple((a, v) for a, v in fixed.items() if v is not None)


_INCONSISTENT = (Const('<inconsistent>'), True)


def guards_consistent(gs: Tuple[Guard, ...], max_atoms: int = 12) -> bool:
    """False when no truth assignment of the atomic tests satisfies all the guards (a path that cannot be taken)"""
    return implied_literals(gs, max_atoms, mark_inconsistent=True) != (_INCONSISTENT,)


def flat_guards(gs: Tuple[Guard, ...]) -> Tuple[Guard, ...]:
    """strip negations; a true conjunction / false disjunction is the conjunction of its parts"""
    out: List[Guard] = []

    def add(g: Guard):
        t, pol = norm_guard(g)
        if isinstance(t, Op) and len(t.args) > 1 and ((t.op == 'and' and pol) or (t.op == 'or' and not pol)):
            for a in t.args:
                add((a, pol))
        else:
            out.append((t, pol))
    for g in gs:
        add(g)
    return tuple(out)

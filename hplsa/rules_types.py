"""Type-inference discipline rules N1-N3 and schema-helper rules A8-A9."""
from __future__ import annotations

import ast
from typing import Dict, List, Optional, Set, Tuple

from .ctx import Ctx
from .model import AnalysisError, FunctionInfo
from .report import RuleResult
from .terms import (Attr, Call, Comp, Const, DictT, Evaluator, Ext, Fmt, Ite, Loop, Op, helper_inline, Opaque, Outcome, Store, Sub, Sym, Template, Term,
                    TupleT, _State, alternatives, flat_guards, guards_repr, norm_guards, walk)
from .util import all_terms, call_name, call_recv, method_calls


def _loops(t: Term) -> List[Loop]:
    return [x for x in walk(t) if isinstance(x, Loop)]


def N1(ctx: Ctx) -> RuleResult:
    r = RuleResult('N1', 'compatibility decisions on the construction path are intersection tests (cast / can_be): no ==, != , is or subset test between type sets dominates a TypeError')
    targets = [
        ('HplExpression', '_type_check'), ('HplExpression', 'cast'), ('FunctionSignature', 'accepts'), ('FunctionDefinition', 'check_arguments'),
        ('HplBinaryOperator', '__attrs_post_init__'), ('HplPredicateExpression', '_all_refs_same_type'), ('HplPredicateExpression', '_check_expression'),
        ('HplDataAccess', 'type_check_references'),
    ]
    # the validators of the quantifier's typed children, however many methods they are split into
    qc = ctx.model.cls('HplQuantifier', 'N1')
    qv = [(qc.name, v.name) for fld in ('domain', 'condition') for v in qc.all_validators(fld)]
    if len({x for x in qv}) < 2:
        raise AnalysisError('N1', 'HplQuantifier has no validators on domain / condition (anchor vanished)')
    targets += list(dict.fromkeys(qv))
    n = 0
    for cname, mname in targets:
        c = ctx.model.cls(cname, 'N1')
        fi = c.methods.get(mname) or c.resolve(mname)
        if fi is None:
            raise AnalysisError('N1', f'{cname}.{mname} not found (anchor vanished)')
        n += 1
        bad = []
        for node in ast.walk(fi.node):
            if isinstance(node, (ast.If, ast.While)):
                test = node.test
                for cmp in ast.walk(test):
                    if isinstance(cmp, ast.Compare):
                        txt = ast.unparse(cmp)
                        involves_type = any(k in txt for k in ('data_type', 'DataType.', '.type ', '.type)', 'parameter', '.result'))
                        is_eq = any(isinstance(op, (ast.Eq, ast.NotEq, ast.Is, ast.IsNot, ast.In, ast.NotIn, ast.LtE, ast.GtE, ast.Lt, ast.Gt)) for op in cmp.ops)
                        if involves_type and is_eq:
                            # allowed: `r == self.data_type` deciding between self and a copy (no raise dominated)
                            dominated_raise = any(isinstance(x, (ast.Raise,)) for b in getattr(node, 'body', []) + getattr(node, 'orelse', []) if isinstance(b, ast.stmt) for x in ast.walk(b)) or any(isinstance(x, ast.Return) and isinstance(x.value, ast.Constant) and x.value.value is False for b in getattr(node, 'body', []) if isinstance(b, ast.stmt) for x in ast.walk(b))
                            none_test = any(isinstance(c2, ast.Constant) and c2.value is None for c2 in cmp.comparators)
                            if dominated_raise and not none_test:
                                bad.append((txt, node.lineno))
        if bad:
            for txt, line in bad:
                r.fail(f'{cname}.{mname}:{txt[:40]}', f'type sets are compared with `{txt}` to reject: compatibility must be a non-empty intersection (cast / can_be), an equality or subset test rejects well-typed input', f'{fi.module.relpath}:{line}')
        else:
            r.ok(f'{cname}.{mname}: rejects only through cast / can_be')
    r.floor('type-decision functions', n, 8)
    return r


def N2(ctx: Ctx) -> RuleResult:
    r = RuleResult('N2', 'reference consistency: _all_refs_same_type folds a running intersection over ALL occurrences of a reference (each occurrence is cast against the accumulated type, the result becomes the accumulator)')
    c = ctx.model.cls('HplPredicateExpression', 'N2')
    fi = c.methods.get('_all_refs_same_type')
    if fi is None:
        raise AnalysisError('N2', '_all_refs_same_type not found')
    self_t = Sym('self', c.name)
    table = Sym('table')
    outs = Evaluator(ctx.model, inline=helper_inline(('hpl.ast.predicates',), exclude=('_all_refs_same_type',))).run(fi, {'self': self_t, 'table': table})
    outer = [e for o in outs for e in o.effects if isinstance(e, Loop)]
    if not outer:
        raise AnalysisError('N2', 'no loop over reference groups found')
    lp = outer[0]
    it = lp.iter
    groups_ok = isinstance(it, Call) and call_name(it) in ('values', 'items') and call_recv(it) == table
    if not groups_ok and isinstance(it, Sym) and it.name in fi.params():
        # the groups are handed in by the caller: the expression validator must pass all of them (table.values())
        vfi = c.methods.get('_check_expression')
        if vfi is not None:
            vps = vfi.params()
            vouts = Evaluator(ctx.model, inline=lambda f, d: False).run(vfi, {vps[0]: self_t, vps[-1]: Sym('expr')}, self_cls=c)
            for o in vouts:
                for t in list(o.effects) + list(o.trace):
                    for x in walk(t):
                        if isinstance(x, Call) and call_name(x) == '_all_refs_same_type' and x.args:
                            a = x.args[fi.params().index(it.name) - (1 if fi.kind != 'staticmethod' else 0)] if len(x.args) > 0 else None
                            a = x.args[-1] if a is None else a
                            if isinstance(a, Call) and call_name(a) == 'values' and isinstance(call_recv(a), Call) and 'reference_table' in repr(call_recv(a)):
                                groups_ok = True
    if not groups_ok:
        r.fail('_all_refs_same_type:groups', f'does not iterate all reference groups of the table: {it!r}', fi.where)
    inner: List[Loop] = []
    for pg, flow, binds, effs in lp.paths:
        for e in effs:
            inner.extend(_loops(e))
        if flow != 'end':
            r.fail('_all_refs_same_type:groups', 'the loop over groups can stop early', fi.where)
    if not inner:
        # the same fold written with functools.reduce: reduce(step, <all occurrences>, <start>) with
        # step(acc, ref) = ref.data_type.cast(acc)
        ev_n = Evaluator(ctx.model, inline=helper_inline(('hpl.ast.predicates',), exclude=('_all_refs_same_type',)))
        folded = False
        for pg, flow, binds, effs in lp.paths:
            for t in list(effs) + [v for _, v in binds]:
                for x in walk(t):
                    if isinstance(x, Call) and isinstance(x.func, Ext) and x.func.name.split('.')[-1] == 'reduce' and len(x.args) == 3:
                        step, src, _start = x.args
                        covers = any(isinstance(y, Sym) and y.name.startswith('each:') for y in walk(src)) and not any(isinstance(y, Sub) for y in walk(src))
                        acc, ref = Sym('acc'), Sym('ref')
                        res = ev_n.apply(step, (acc, ref), (), _State(), 0)
                        if isinstance(res, Call) and call_name(res) == 'cast' and {call_recv(res), res.args[0] if res.args else None} == {acc, Attr(ref, 'data_type')} and covers and not pg:
                            folded = True
        if folded:
            r.ok('running intersection over every occurrence (functools.reduce with step ref.data_type.cast(acc))')
        else:
            r.fail('_all_refs_same_type:fold', 'no pass over the occurrences of a group', fi.where)
            return r
        inner = []
        good_pass_reduce = True
    else:
        good_pass_reduce = False
    good_pass = False
    for il in inner:
        src = il.iter
        covers_all = any(isinstance(x, Sym) and x.name.startswith('each:') for x in walk(src)) and not any(isinstance(x, Sub) for x in walk(src))
        for pg, flow, binds, effs in il.paths:
            b = dict(binds)
            acc_names = [k for k, v in b.items() if isinstance(v, Call) and call_name(v) == 'cast']
            folded = False
            for k in acc_names:
                v = b[k]
                recv, arg = call_recv(v), (v.args[0] if v.args else None)
                prev = Opaque(f'loopvar:{k}')
                parts = {repr(recv), repr(arg)}
                has_prev = prev in (recv, arg)
                has_elem = any(isinstance(x, Attr) and x.name == 'data_type' and isinstance(x.base, Sym) and x.base.name.startswith('each:') for x in (recv, arg) if x is not None)
                if has_prev and has_elem:
                    folded = True
            if folded and covers_all and flow == 'end' and not pg:
                good_pass = True
            elif not folded:
                # a pass that only compares neighbours / does not carry the intersection forward
                casts = method_calls(list(effs) + [v for _, v in binds], 'cast')
                if casts:
                    r.fail('_all_refs_same_type:fold', f'occurrences are compared pairwise ({str(casts[0])[:80]}) instead of against the running intersection: compatibility is not transitive, three occurrences typed A, A|B, B pass although A and B clash', fi.where)
    if good_pass_reduce:
        pass
    elif good_pass:
        r.ok('running intersection over every occurrence (final_type = ref.data_type.cast(final_type))')
    else:
        r.fail('_all_refs_same_type:no-fold', 'no unconditional pass folds the running intersection over all occurrences of a group', fi.where)
    # it must be reached from the expression validator
    v = c.methods.get('_check_expression')
    if v is None or '_all_refs_same_type' not in ast.unparse(v.node) or '_get_reference_table' not in ast.unparse(v.node):
        r.fail('HplPredicateExpression._check_expression:refs', 'the expression validator no longer runs the reference-consistency check on the reference table', c.where)
    else:
        r.ok('_check_expression -> _all_refs_same_type(_get_reference_table(expr))')
    return r


def N4(ctx: Ctx) -> RuleResult:
    r = RuleResult('N4', 'the reference table of a predicate holds EVERY reference node of the expression: it is filled from a traversal that reaches all nodes (iterate(), or a work list that pushes the children of every node), each variable / accessor node is recorded, and nothing is filtered out')
    m = ctx.model.module('hpl.ast.predicates', 'N4')
    fi = m.functions.get('_get_reference_table')
    if fi is None:
        raise AnalysisError('N4', '_get_reference_table not found (anchor vanished)')
    expr = Sym('expr', 'HplExpression')
    outs = Evaluator(ctx.model, inline=helper_inline(('hpl.ast.predicates',), exclude=('_get_reference_table',))).run(fi, {fi.params()[0]: expr})
    loops = [e for o in outs for e in o.effects if isinstance(e, Loop)]
    if not loops:
        raise AnalysisError('N4', '_get_reference_table: no traversal loop found')
    lp = loops[0]
    src_it = lp.iter
    pre_filter: List[Term] = []
    if isinstance(src_it, Comp) and len(src_it.gens) == 1:
        # the nodes are collected first (a comprehension over the traversal, possibly filtered), then grouped
        pre_filter = list(src_it.gens[0][2])
        src_it = src_it.gens[0][1]
    while isinstance(src_it, Call) and isinstance(src_it.func, Ext) and src_it.func.name in ('list', 'tuple', 'iter') and len(src_it.args) == 1:
        src_it = src_it.args[0]
    full = isinstance(src_it, Call) and call_name(src_it) == 'iterate' and call_recv(src_it) == expr
    if full:
        r.ok('filled from expr.iterate(): every node of the expression is visited')
    elif lp.target == '<while>' and isinstance(lp.iter, TupleT) and lp.iter.items == (expr,):
        # explicit work list: every path must push all children of the node it popped
        for pg, flow, binds, effs in lp.paths:
            pushes = [c for c in effs if isinstance(c, Call) and call_name(c) in ('extend', 'append', 'extendleft') and call_recv(c) == lp.iter]
            all_children = any(any(isinstance(y, Call) and call_name(y) == 'children' for y in walk(c)) for c in pushes)
            if not all_children:
                r.fail('_get_reference_table:skip', f'under [{guards_repr(norm_guards(pg))[:100]}] the walk does not push the children of the node it visits: references below it (the object of an access path, ...) never reach the table', fi.where)
        if not r.findings:
            r.ok('work list pushing children() on every path')
    else:
        r.fail('_get_reference_table:walk', f'the table is not filled from a traversal of the whole expression: iterates {str(lp.iter)[:80]}', fi.where)
    # recorded: variables and accessors, each under its printed form; no other filter
    recorded = {'accessor': False, 'variable': False}
    if pre_filter and any(any((isinstance(e, Call) and call_name(e) == 'append') or isinstance(e, Store) for e in effs) for _, _, _, effs in lp.paths):
        for t in pre_filter:
            for x in walk(t):
                if isinstance(x, Attr) and x.name == 'is_accessor':
                    recorded['accessor'] = True
                if isinstance(x, Attr) and x.name == 'is_variable':
                    recorded['variable'] = True
    for pg, flow, binds, effs in lp.paths:
        stores = [e for e in effs if (isinstance(e, Call) and call_name(e) in ('append', 'add')) or isinstance(e, Store)] + [c for c in effs if isinstance(c, Call) and call_name(c) == 'setdefault']
        adds = any((isinstance(e, Call) and call_name(e) == 'append') for e in effs) or any(isinstance(x, Call) and call_name(x) == 'append' for e in effs for x in walk(e))
        if not adds:
            continue
        for t, pol in flat_guards(pg):
            for x in walk(t):
                if isinstance(x, Attr) and x.name == 'is_accessor':
                    recorded['accessor'] = True
                if isinstance(x, Attr) and x.name == 'is_variable':
                    recorded['variable'] = True
    for k, seen in recorded.items():
        (r.ok(f'{k} nodes are recorded') if seen else r.fail(f'_get_reference_table:{k}', f'{k} nodes are not recorded in the reference table', fi.where))
    return r


def N3(ctx: Ctx) -> RuleResult:
    r = RuleResult('N3', 'overload acceptance: too few arguments always reject; too many reject unless variadic; every argument is tested with can_be against its parameter / the variadic type; check_arguments raises TypeError when no overload accepts')
    c = ctx.model.cls('FunctionSignature', 'N3')
    fi = c.methods.get('accepts')
    if fi is None:
        raise AnalysisError('N3', 'FunctionSignature.accepts not found')
    self_t = Sym('self', c.name)
    args = Sym('args')
    outs = ctx.ev.run(fi, {'self': self_t, 'args': args})

    def is_args(a: Term) -> bool:
        if a == args:
            return True
        if isinstance(a, Call) and isinstance(a.func, Ext) and a.func.name in ('tuple', 'list') and a.args == (args,):
            return True
        if isinstance(a, Ite):
            return is_args(a.a) and is_args(a.b)
        return False

    def is_len(t: Term, what: str) -> bool:
        if what == 'params' and t == Attr(self_t, 'arity'):
            return True
        if not (isinstance(t, Call) and isinstance(t.func, Ext) and t.func.name == 'len' and t.args):
            return False
        a = t.args[0]
        if what == 'params':
            return a == Attr(self_t, 'parameters')
        return is_args(a)

    variadic_flag = Op('is not', (Attr(self_t, 'variadic'), Const(None)))

    class Undecided(Exception):
        pass

    def value(t: Term, na: int, npar: int, var: bool):
        """the arithmetic / boolean value of an arity term in the model (nargs, nparams, variadic); Undecided otherwise"""
        if isinstance(t, Const) and isinstance(t.value, (int, bool)):
            return t.value
        if is_len(t, 'args'):
            return na
        if is_len(t, 'params'):
            return npar
        if t == variadic_flag or t == Attr(self_t, 'is_variadic'):
            return var
        if isinstance(t, Op) and t.op == 'is' and t.args == (Attr(self_t, 'variadic'), Const(None)):
            return not var
        if isinstance(t, Op):
            if t.op == 'not' and len(t.args) == 1:
                return not value(t.args[0], na, npar, var)
            if t.op == 'and':
                res = True
                und = False
                for x in t.args:
                    try:
                        if not value(x, na, npar, var):
                            return False
                    except Undecided:
                        und = True
                if und:
                    raise Undecided()
                return res
            if t.op == 'or':
                und = False
                for x in t.args:
                    try:
                        if value(x, na, npar, var):
                            return True
                    except Undecided:
                        und = True
                if und:
                    raise Undecided()
                return False
            if len(t.args) == 2 and t.op in ('<', '>', '<=', '>=', '==', '!=', '+', '-'):
                x, y = value(t.args[0], na, npar, var), value(t.args[1], na, npar, var)
                return {'<': x < y, '>': x > y, '<=': x <= y, '>=': x >= y, '==': x == y, '!=': x != y, '+': x + y, '-': x - y}[t.op]
        if isinstance(t, Call) and isinstance(t.func, Ext) and t.func.name in ('min', 'max') and len(t.args) == 2:
            return (min if t.func.name == 'min' else max)(value(t.args[0], na, npar, var), value(t.args[1], na, npar, var))
        raise Undecided()

    def mentions_arity(t: Term) -> bool:
        return any(is_len(x, 'args') or is_len(x, 'params') for x in walk(t))

    # decide the arity clauses over the finite model nargs, nparams in 0..3, variadic in {False, True}: the outcome of every
    # path whose arity guards hold must be the constant False
    bad_few: List[str] = []
    bad_many: List[str] = []
    bad_ne_var = False
    n_models = 0
    for na in range(4):
        for npar in range(4):
            for var in (False, True):
                few = na < npar
                many = na > npar and not var
                if not (few or many):
                    continue
                n_models += 1
                for o in outs:
                    feasible = True
                    for t, pol in o.guards:
                        if isinstance(t, Op) and t.op == 'iterating':
                            continue
                        try:
                            if bool(value(t, na, npar, var)) != pol:
                                feasible = False
                                break
                        except Undecided:
                            if mentions_arity(t) and not any(isinstance(x, Call) and call_name(x) == 'can_be' for x in walk(t)):
                                raise AnalysisError('N3', f'FunctionSignature.accepts: cannot evaluate the arity guard {str(t)[:120]}')
                    if not feasible:
                        continue
                    rejects = o.kind == 'return' and o.value == Const(False)
                    # a loop that returns False early on some item still continues to the path's own outcome
                    if not rejects:
                        (bad_few if few else bad_many).append(f'nargs={na} nparams={npar} variadic={var}: [{guards_repr(o.guards)[:90]}] -> {o.kind} {str(o.value)[:50]}')
                        if few and var:
                            bad_ne_var = True
    if not bad_few:
        r.ok(f'fewer arguments than parameters: every path returns False ({n_models} arity models)')
    elif bad_ne_var and all('variadic=True' in b for b in bad_few):
        r.fail('FunctionSignature.accepts:arity', 'arity mismatch is rejected only for non-variadic overloads: a variadic overload now accepts FEWER arguments than it has parameters (max(3) passes the (number, number, *number) overload)', fi.where, found=bad_few[:3])
    else:
        r.fail('FunctionSignature.accepts:too-few', 'no path rejects "fewer arguments than parameters" independently of the variadic flag', fi.where, found=bad_few[:3])
    if not bad_many:
        r.ok('more arguments than parameters: every path returns False unless variadic')
    else:
        r.fail('FunctionSignature.accepts:too-many', 'no path rejects "more arguments than parameters and not variadic"', fi.where, found=bad_many[:3])

    # per-argument tests
    pos_ok = var_ok = False

    def iter_kinds(it: Term) -> Set[str]:
        """what an iterable pairs the arguments with: 'params' (zip with the parameters), 'variadic'"""
        kinds: Set[str] = set()
        for x in walk(it):
            if x == Attr(self_t, 'parameters'):
                kinds.add('params')
            if isinstance(x, Call) and isinstance(x.func, Ext) and x.func.name.endswith('repeat') and x.args and x.args[0] == Attr(self_t, 'variadic'):
                kinds.add('variadic')
        return kinds

    def note_test(t: Term, it: Term):
        nonlocal pos_ok, var_ok
        if not (isinstance(t, Call) and call_name(t) == 'can_be' and t.args):
            return
        a = t.args[0]
        if a == Attr(self_t, 'variadic'):
            var_ok = True
        elif isinstance(a, Sym) and a.name.startswith('each:') and 'zip' in repr(it):
            ks = iter_kinds(it)
            if 'params' in ks:
                pos_ok = True
            if 'variadic' in ks:
                var_ok = True
    for o in outs:
        for e in o.effects:
            if not isinstance(e, Loop):
                continue
            for rg, val in e.returns:
                for t, p in norm_guards(rg):
                    if not p and val == Const(False):
                        note_test(t, e.iter)
        if o.kind == 'return' and o.value == Const(False):
            # if not all(arg.can_be(param) for ...): return False
            for t, p in norm_guards(o.guards):
                if isinstance(t, Call) and isinstance(t.func, Ext) and t.args and isinstance(t.args[0], Comp) and len(t.args[0].gens) == 1 and not t.args[0].gens[0][2]:
                    comp = t.args[0]
                    if t.func.name == 'all' and not p:
                        note_test(comp.elt, comp.gens[0][1])
                    elif t.func.name == 'any' and p and isinstance(comp.elt, Op) and comp.elt.op == 'not':
                        note_test(comp.elt.args[0], comp.gens[0][1])
        if o.kind == 'return':
            # return all(arg.can_be(param) for ...) [and all(...)]
            for x in walk(o.value):
                if isinstance(x, Call) and isinstance(x.func, Ext) and x.func.name == 'all' and x.args and isinstance(x.args[0], Comp) and len(x.args[0].gens) == 1:
                    comp = x.args[0]
                    if not comp.gens[0][2]:
                        note_test(comp.elt, comp.gens[0][1])
    (r.ok('each positional argument: not can_be(parameter) -> reject') if pos_ok else r.fail('FunctionSignature.accepts:positional', 'positional arguments are not each tested with can_be against their parameter type', fi.where))
    (r.ok('each extra argument: not can_be(variadic) -> reject') if var_ok else r.fail('FunctionSignature.accepts:variadic', 'extra arguments are not each tested with can_be against the variadic type', fi.where))

    # ... and that test is on the way of every accepting path of a variadic overload with extra arguments
    def tests_variadic(o) -> bool:
        terms = [o.value] if o.value is not None else []
        terms += [g for g, _ in o.guards]
        for e in o.effects:
            terms.append(e)
            if isinstance(e, Loop):
                terms += [g for rg, _ in e.returns for g, _ in rg] + [e.iter]
        for t in terms:
            for x in walk(t):
                if isinstance(x, Call) and call_name(x) == 'can_be' and x.args and x.args[0] == Attr(self_t, 'variadic'):
                    return True
                if isinstance(x, Call) and isinstance(x.func, Ext) and x.func.name.endswith('repeat') and x.args and x.args[0] == Attr(self_t, 'variadic'):
                    return True
        return False
    skipped = None
    for na, npar in ((2, 1), (3, 1), (1, 0)):
        for o in outs:
            if not (o.kind == 'return' and o.value != Const(False)):
                continue
            feasible = True
            for t, pol in o.guards:
                if isinstance(t, Op) and t.op == 'iterating':
                    continue
                try:
                    if bool(value(t, na, npar, True)) != pol:
                        feasible = False
                        break
                except Undecided:
                    pass
            if feasible and not tests_variadic(o):
                skipped = f'nargs={na} nparams={npar} variadic: [{guards_repr(o.guards)[:90]}] -> {str(o.value)[:40]}'
    if skipped and var_ok:
        r.fail('FunctionSignature.accepts:variadic-skipped', f'a variadic overload accepts extra arguments on a path that never tests them against the variadic type ({skipped}): max(1, 2, "a") is accepted', fi.where)
    # check_arguments
    fd = ctx.model.cls('FunctionDefinition', 'N3')
    ca = fd.methods.get('check_arguments')
    outs = ctx.ev.run(ca, {'self': Sym('self', 'FunctionDefinition'), 'args': args})
    raises = [o for o in outs if o.kind == 'raise' and 'TypeError' in repr(o.value)]

    def none_accepts(g) -> bool:
        """the guard says: no overload accepts"""
        t, pol = g
        while isinstance(t, Op) and t.op == 'not' and len(t.args) == 1:
            t, pol = t.args[0], not pol
        if isinstance(t, Call) and isinstance(t.func, Ext) and t.func.name == 'any' and t.args and isinstance(t.args[0], Comp):
            comp = t.args[0]
            return (not pol) and isinstance(comp.elt, Call) and call_name(comp.elt) == 'accepts' and len(comp.gens) == 1 and not comp.gens[0][2] and comp.gens[0][1] == Attr(Sym('self', 'FunctionDefinition'), 'overloads')
        return False
    accepts = any(isinstance(t, Call) and call_name(t) == 'accepts' for o in outs for t2, _ in o.guards for t in walk(t2)) or \
        any(isinstance(t, Call) and call_name(t) == 'accepts' for o in outs for e in o.effects for t in walk(e))
    if raises and accepts and all(all('iterating' in repr(g) or none_accepts((g, p)) for g, p in o.guards) for o in raises):
        r.ok('check_arguments: TypeError when no overload accepts the argument types')
    else:
        r.fail('FunctionDefinition.check_arguments', 'does not raise TypeError exactly when no overload accepts', ca.where)
    return r


def A8(ctx: Ctx) -> RuleResult:
    r = RuleResult('A8', 'schema navigation: a value read from MessageType.constants (declared Mapping[str, Tuple[TypeToken, Any]]) is subscripted [0] before it is used as a type token; contains_name reads fields and constants; get_type_of prefers fields')
    m = ctx.model
    mt = m.cls('MessageType', 'A8')
    f = mt.field('constants')
    if f is None or 'Tuple' not in f.annotation_src():
        r.notes.append(f'MessageType.constants annotation is {f.annotation_src() if f else None}')
    sites = [(m.cls('HplFieldAccess', 'A8'), '_get_next_token', 'token'), (mt, 'get_type_of', None)]
    for c, meth, tokparam in sites:
        fi = c.resolve(meth)    # possibly a template method of the base class that calls back into this class
        if fi is None:
            raise AnalysisError('A8', f'{c.name}.{meth} not found')
        self_t = Sym('self', c.name)
        outs = ctx.ev.run(fi, {'self': self_t}, self_cls=c)
        n_ret = 0
        for o in outs:
            if o.kind != 'return':
                continue
            n_ret += 1
            for g, leaf in alternatives(o.value):
                src = _mapping_sources(leaf, o)
                key = f'{c.name}.{meth}'
                if 'constants' in src['raw']:
                    r.fail(key + ':constants', f'returns an entry of .constants itself ({str(leaf)[:60]}): that is the (TypeToken, value) pair, not the token; the caller fails with AttributeError on .type', f'{fi.module.relpath}:{o.lineno}')
                elif 'constants' in src['first'] or 'fields' in src['raw']:
                    r.ok(f'{key}: returns {str(leaf)[:50]}')
                elif src['raw'] or src['first']:
                    r.ok(f'{key}: returns {str(leaf)[:50]}')
                elif isinstance(leaf, Sub) and isinstance(leaf.index, Const) and isinstance(leaf.index.value, int) and any(isinstance(x, Attr) and x.name == 'constants' for x in walk(leaf.base)):
                    r.fail(key + ':constants', f'returns component [{leaf.index.value}] of an entry of .constants ({str(leaf)[:60]}): entries are (type token, value) pairs and the token is component [0]', f'{fi.module.relpath}:{o.lineno}')
                else:
                    r.notes.append(f'{key}: return value {str(leaf)[:40]} not from fields/constants')
        if n_ret == 0:
            r.fail(f'{c.name}.{meth}', 'no return path', fi.where)
    # contains_name
    fi = mt.methods.get('contains_name')
    outs = ctx.ev.run(fi, {'self': Sym('self', 'MessageType'), 'name': Sym('name')})
    txt = ' '.join(repr(o.value) for o in outs)
    nm = Sym('name')
    st = Sym('self', 'MessageType')
    want_parts = {Op('in', (nm, Attr(st, 'fields'))), Op('in', (nm, Attr(st, 'constants')))}
    if len(outs) == 1 and isinstance(outs[0].value, Op) and outs[0].value.op == 'or' and set(outs[0].value.args) == want_parts:
        r.ok('contains_name: name in fields or name in constants')
    else:
        r.fail('MessageType.contains_name', f'not "name in fields or name in constants": {txt[:100]}', fi.where)
    # get_type_of prefers fields
    fi = mt.methods.get('get_type_of')
    outs = ctx.ev.run(fi, {'self': Sym('self', 'MessageType'), 'name': Sym('name')})
    from .util import none_test
    pref = False
    const_unguarded = False
    for o in outs:
        if o.kind != 'return':
            continue
        for g2, leaf in alternatives(o.value):
            facts = []   # (term, known to be not None?)
            for t, p in norm_guards(tuple(o.guards) + tuple(g2)):
                nt = none_test(t)
                if nt is not None:
                    facts.append((nt[0], (not nt[1]) if p else nt[1]))
                elif p and 'fields' in repr(t):
                    facts.append((t, True))
            fields_present = any('fields' in repr(t) and notnone for t, notnone in facts)
            fields_absent = any('fields' in repr(t) and not notnone for t, notnone in facts)
            if 'fields' in repr(leaf) and 'constants' not in repr(leaf) and fields_present:
                pref = True
            if 'constants' in repr(leaf) and not fields_absent:
                const_unguarded = True
    pref = pref and not const_unguarded
    (r.ok('get_type_of: a field of that name wins over a constant') if pref else r.fail('MessageType.get_type_of:order', 'fields are not looked up first', fi.where))
    return r


def _mapping_sources(leaf: Term, o: Outcome) -> Dict[str, Set[str]]:
    """which mapping attribute a returned term reads: raw = entry itself, first = entry[0]"""
    out = {'raw': set(), 'first': set()}

    def base_maps(b: Term) -> Set[str]:
        if isinstance(b, Attr) and b.name in ('fields', 'constants'):
            return {b.name}
        if isinstance(b, Sym) and b.name.startswith('each:'):
            # element of a loop / tuple of mappings: find the loop iterable in the outcome guards/effects
            names: Set[str] = set()
            for t in [g for g, _ in o.guards] + list(o.effects):
                for x in walk(t):
                    if isinstance(x, (TupleT,)):
                        for it in x.items:
                            if isinstance(it, Attr) and it.name in ('fields', 'constants'):
                                names.add(it.name)
            return names
        if isinstance(b, Call) and call_name(b) == 'get' and isinstance(call_recv(b), Attr):
            return set()
        return set()

    def entry(t: Term) -> Optional[Set[str]]:
        if isinstance(t, Sub) and not (isinstance(t.index, Const) and isinstance(t.index.value, int)):
            return base_maps(t.base)
        if isinstance(t, Call) and call_name(t) == 'get' and isinstance(call_recv(t), Attr) and call_recv(t).name in ('fields', 'constants'):
            return {call_recv(t).name}
        if isinstance(t, Call) and call_name(t) == 'get' and isinstance(call_recv(t), Sym):
            return base_maps(call_recv(t))
        return None
    e = entry(leaf)
    if e is not None:
        out['raw'] |= e
    if isinstance(leaf, Sub) and leaf.index == Const(0):
        e2 = entry(leaf.base)
        if e2 is not None:
            out['first'] |= e2
    return out


def A9(ctx: Ctx) -> RuleResult:
    r = RuleResult('A9', 'leaf_fields lists every leaf under its full dotted path: nested messages contribute "<name>.<sub-path>" for every entry of the nested listing (recursion or a work list that carries the accumulated prefix)')
    mt = ctx.model.cls('MessageType', 'A9')
    fi = mt.methods.get('leaf_fields')
    if fi is None:
        raise AnalysisError('A9', 'MessageType.leaf_fields not found')
    self_t = Sym('self', 'MessageType')
    outs = ctx.ev.run(fi, {'self': self_t})
    loops = [e for o in outs for e in o.effects if isinstance(e, Loop)]
    rec_name = 'leaf_fields'
    gen_mode = False
    if not loops and len(outs) == 1 and outs[0].kind == 'return':
        v0 = outs[0].value
        if isinstance(v0, Call) and isinstance(v0.func, Ext) and v0.func.name == 'dict' and len(v0.args) == 1 and isinstance(v0.args[0], Call) \
                and call_recv(v0.args[0]) == self_t and mt.resolve(call_name(v0.args[0]) or '') is not None:
            # dict(self.<generator>()): the listing is produced as (path, token) pairs by a recursive generator
            gfi = mt.resolve(call_name(v0.args[0]))
            fi = gfi
            rec_name = gfi.name
            gen_mode = True
            outs = ctx.ev.run(gfi, {'self': self_t})
            loops = [e for o in outs for e in o.effects if isinstance(e, Loop)]
    if not loops:
        raise AnalysisError('A9', 'leaf_fields: no loop found')
    lp = loops[0]
    recursive = any(isinstance(x, Call) and call_name(x) == rec_name for p in lp.paths for e in p[3] for x in walk(e))
    if recursive and lp.iter == Call(Attr(Attr(self_t, 'fields'), 'items')):
        ok_nested = ok_leaf = False
        for pg, flow, binds, effs in lp.paths:
            msg = next((p for t, p in norm_guards(pg) if isinstance(t, Attr) and t.name == 'is_message'), None)
            if msg is True:
                outer_names = [x.strip() for x in lp.target.strip('()').split(',')]
                entries = []  # (key, value, iterable, inner target names)
                for e in effs:
                    for il in _loops(e):
                        inner_names = [x.strip() for x in il.target.strip('()').split(',')]
                        for ipg, iflow, ibinds, ieffs in il.paths:
                            for st in ieffs:
                                if isinstance(st, Store) and isinstance(st.target, Sub):
                                    entries.append((st.target.index, st.value, il.iter, inner_names))
                                if gen_mode and isinstance(st, Op) and st.op == 'yield' and st.args and isinstance(st.args[0], TupleT) and len(st.args[0].items) == 2:
                                    entries.append((st.args[0].items[0], st.args[0].items[1], il.iter, inner_names))
                    # result.update((key, value) for ... in nested.items()) / update({key: value for ...})
                    if isinstance(e, Call) and call_name(e) == 'update' and len(e.args) == 1 and isinstance(e.args[0], Comp) and len(e.args[0].gens) == 1:
                        comp = e.args[0]
                        tgt, it, ifs = comp.gens[0]
                        if isinstance(comp.elt, TupleT) and len(comp.elt.items) == 2 and not ifs:
                            entries.append((comp.elt.items[0], comp.elt.items[1], it, [x.strip() for x in tgt.strip('()').split(',')]))

                def parts(k: Term):
                    if isinstance(k, Template):
                        return [x.value if isinstance(x, Fmt) and not x.spec else x for x in k.parts]
                    if isinstance(k, Op) and k.op == '+':
                        out = []
                        for x in k.args:
                            out.extend(parts(x))
                        return out
                    if isinstance(k, Call) and isinstance(k.func, Ext) and k.func.name == 'str' and k.args:
                        return parts(k.args[0])
                    return [k]
                for k, v, it, inner_names in entries:
                    items = (isinstance(it, Call) and call_name(it) == 'items' and isinstance(call_recv(it), Call) and call_name(call_recv(it)) == 'leaf_fields') or \
                        (gen_mode and isinstance(it, Call) and call_name(it) == rec_name)   # the generator already yields pairs
                    if not items:
                        r.fail('MessageType.leaf_fields:nested-iter', f'nested listing is iterated as {str(it)[:60]} (a mapping must be iterated with .items())', fi.where)
                    want_parts = [Sym(f'each:{outer_names[0]}'), Const('.'), Sym(f'each:{inner_names[0]}')] if len(outer_names) == 2 and len(inner_names) == 2 else None
                    if want_parts and parts(k) == want_parts and v == Sym(f'each:{inner_names[1]}'):
                        ok_nested = True
                    else:
                        r.fail('MessageType.leaf_fields:key', f'nested leaves are stored under {k!r}, expected "<name>.<subname>"', fi.where)
            elif msg is False:
                outer_names = [x.strip() for x in lp.target.strip('()').split(',')]
                for st in effs:
                    if len(outer_names) == 2 and isinstance(st, Store) and isinstance(st.target, Sub) and st.target.index == Sym(f'each:{outer_names[0]}') and st.value == Sym(f'each:{outer_names[1]}'):
                        ok_leaf = True
                    if gen_mode and len(outer_names) == 2 and isinstance(st, Op) and st.op == 'yield' and st.args == (TupleT((Sym(f'each:{outer_names[0]}'), Sym(f'each:{outer_names[1]}'))),):
                        ok_leaf = True
        (r.ok('recursive listing: fields[name + "." + subname] = subtoken for every nested entry; fields[name] = token for leaves') if ok_nested and ok_leaf else r.fail('MessageType.leaf_fields:shape', 'recursive idiom not recognised on both the nested and the leaf path', fi.where))
        return r
    # work-list idiom: (prefix, message) pairs
    src = ast.unparse(fi.node)
    wl = [n for n in ast.walk(fi.node) if isinstance(n, ast.Call) and isinstance(n.func, ast.Attribute) and n.func.attr in ('append', 'extend', 'insert') and n.args]
    pops = [n for n in ast.walk(fi.node) if isinstance(n, ast.Assign) and isinstance(n.value, ast.Call) and isinstance(n.value.func, ast.Attribute) and n.value.func.attr == 'pop' and isinstance(n.targets[0], ast.Tuple)]
    if wl and pops:
        prefix_var = pops[0].targets[0].elts[0].id if isinstance(pops[0].targets[0].elts[0], ast.Name) else None
        good = False
        for n in wl:
            a = n.args[-1]
            if isinstance(a, ast.Tuple) and a.elts:
                names = {x.id for x in ast.walk(a.elts[0]) if isinstance(x, ast.Name)}
                if prefix_var and prefix_var in names:
                    good = True
                else:
                    r.fail('MessageType.leaf_fields:prefix', f'the work list pushes the prefix {ast.unparse(a.elts[0])} without the prefix accumulated so far ({prefix_var}): leaves three or more levels deep lose the outer path components', f'{fi.module.relpath}:{n.lineno}')
        if good:
            r.ok('work-list listing carries the accumulated prefix')
        return r
    raise AnalysisError('A9', 'leaf_fields: neither the recursive nor the work-list idiom')


RULES = {'N1': N1, 'N2': N2, 'N3': N3, 'N4': N4, 'A8': A8, 'A9': A9}

"""Which rules decide which property (DESIGN.md section 5)."""
from .driver import prop

prop(
    'C20',
    ['L1', 'L2', 'L3', 'L4', 'L5'],
    explanation=(
        'Static idiom check of hpl.types.DataType: L1 folds the member expressions (seven auto() members, NONE empty, '
        'PRIMITIVE/ITEM/COMPOUND/ANY the stated unions); L2 extracts every syntactic path of cast() and requires: each '
        'return yields self & t on a path that established a non-empty intersection, each raise is a TypeError on a path '
        'that established an empty one, both exist; L3 requires can_be and the seven can_be_x to be the truthiness of the '
        'intersection with t / exactly that base; L4 requires union to be an unconditional |-fold from the empty set over '
        'every element. Given enum.Flag semantics these bodies are intersection / non-empty intersection / least upper '
        'bound for all 128x128 pairs, so idempotence, commutativity, associativity and monotonicity follow from set algebra. '
        'Decides the code shape, not by evaluation of the 128x128 table.'
    ),
    assumptions=['enum.Flag: & is set intersection, | is set union, truthiness is non-emptiness, auto() yields distinct single bits'],
)

prop(
    'C19',
    ['C1', 'C2', 'C3'],
    explanation=(
        'Path extraction of hpl.cli.main (try/except summarised per handler): C1 every handler path prints a diagnostic, '
        'returns a non-zero int and prints no JSON; the only return 0 is reached by completing the try body with the '
        'result of a parse_* call; Exception is handled; every parse_* call is lexically inside that try. C2 the success '
        'paths are guarded by the -p flag (dest resolved from add_argument): set -> parse_property(raw argument), unset '
        '-> parse_specification(text read from the file named by the argument). C3 the JSON path prints '
        'json.dumps(asdict(parse result, value_serializer=S)) to stdout with no filter/recurse=False; S maps Enum -> '
        '.value, non-finite float -> None under an isinstance(float) guard, everything else unchanged; the closure of '
        'field types reachable from HplSpecification is JSON-native after that mapping. Not decided: argparse usage '
        'errors/--version exits, wording of diagnostics, attrs.asdict itself (trusted).'
        " C1 also fixes the status of every handler to exactly 1. C3 also requires that the JSON document is printed only on paths that established `output == 'json'`, that an option setting args['output'] with that choice exists, and checks the serializer as a truth table over (is a float, is infinite, is NaN): null exactly for the two non-finite cases."
    ),
    assumptions=['attrs.asdict recurses into attrs instances, tuples and dicts and applies value_serializer to every leaf', 'json.dumps of str/int/finite float/bool/None/list/dict is strictly valid JSON'],
)

prop(
    'C15',
    ['S1', 'S2', 'S3', 'S6', 'S7', 'S8', 'S9', 'V1', 'V2', 'V3', 'X12', 'M4'],
    explanation=(
        'Sibling agreement of the per-class protocol with the slot table derived from attrs field annotations (20 concrete '
        'AST classes, 23 child slots). S2: children() evaluated per enum member / None-ness combination allowed by the '
        "class's validators returns exactly the non-None slots, each once. S3: for each of external_references, "
        'contains_reference, contains_self_reference, contains_definition and each concrete class, the method resolved '
        'through the MRO consults every slot (directly or by iterating children()), combines with or/any resp. union, '
        'removes only the bound variable (HplQuantifier) / own alias (HplSimpleEvent), never returns a shared module-level '
        'container, and the leaf/binder base cases hold (HplVarReference: {name}, alias == name, name = token[1:]; '
        'HplThisMessage: self-reference; literals: nothing; quantifier defines its variable). S6: no abstract stub is '
        'reachable on a concrete class. S7: iterate() is the explicit-stack (pop from end, extend(reversed(children)), '
        'yield once) or recursive pre-order idiom. S8: aliases()/simple_events() enumerate event1 then event2; '
        'HplProperty.events() yields all four positions. S9: the own-field check searches every reference group without an '
        'early abort, accepts exactly a direct field of the current message and raises afterwards.'
        ' V1: the constant predicates answer every query with the right constant (no references, fresh empty set). V2: a simple event answers contains_reference / external_references through its predicate (own alias removed exactly when set) and contains_self_reference() as P or (alias and Q) on all 8 cases of the truth table. X12: no query with a declared result falls off the end.'
        ' M4: a reference query writes nothing on the node it is asked about (no memo in metadata: but() copies metadata, so a rewritten tree would answer with the references of the old one; seeded C15d4).'
    ),
)

prop(
    'C16',
    ['A1', 'A2', 'M1', 'M2', 'M3', 'M4', 'M5', 'M6', 'X6'],
    ['M2g'],
    explanation=(
        'Ownership/effect analysis. A1: all 36 AST / type-token / definition classes are @frozen with generated eq/hash and '
        'define no __eq__/__hash__/__setattr__. A2: metadata is factory=dict, init=False, eq=False and no other AST field is '
        'excluded from equality. M1 (who may write): every object.__setattr__/setattr/__dict__ site in the package is either '
        'on self inside __attrs_post_init__ or the narrowing primitive (data_type of a parameter) inside a private '
        'HplExpression method; a writer summary follows the narrowed parameter through helper calls (flags such as `force` '
        'included) to the sites that decide to narrow: those are attrs field validators narrowing the value being validated '
        'to a fixed parameter type, or field declarations using the validator factory with a constant type. M2: every call of a forcing '
        'constructor (classes whose operand validators narrow the argument object in place: derived from the validators) in '
        'rewrite.py / predicates.py / events.py / properties.py is checked by a may-provenance dataflow: an argument that '
        'may be drawn from a child slot whose stored type is wider than the parameter type (set elements, function '
        'arguments, ...) must be cast (copied) first. M3: but() returns self only after an identity (`is`) comparison of every '
        'given value, otherwise evolve() + metadata entries copied into the new dict, never shared. M4: .metadata is mutated '
        'only on objects constructed in the same function. M5: cast() returns self or self.but(data_type=self.data_type & t) '
        'and never writes. M6: no copy/__new__/evolve/__dict__ in rewrite/parser/AST modules. Not decided: M2 for operands '
        'of operator nodes re-wrapped under guards in the quick tier; the thorough tier adds M2g, which bounds those operands '
        'from the guards on the node they are read from (is_not/is_or/... => BOOL, fixed slot types, casts, dispatcher '
        'guards) and leaves the rest listed as undecided; mutation of metadata by callers.'
    ),
    assumptions=['the _simplify* family and helper calls return fresh nodes or nodes already bounded by their own construction sites (assumed, see DESIGN M2 (g))'],
)

prop(
    'C01',
    ['G1', 'G2', 'G3', 'G4', 'G5', 'G6', 'G7', 'F1', 'D4', 'T1', 'S4', 'X12', 'X6'],
    explanation=(
        'Grammar model (both embedded grammars and both .lark assemblies compiled by lark; rule list, terminal list, LALR '
        'states inspected) + flow extraction of all transformer callbacks. G1 the two copies compile to the same rules/'
        'terminals/ignore list. G2 the binary-operator chain derived from the compiled rules is implies/iff < or < and < '
        'not/quantifier < relational (non-recursive) < +,- < *,/ < **, each level left-recursive, parentheses re-enter at '
        'the loosest level inside an inlined rule. G3 every operator lexeme has exactly one table row; quantifier lexemes '
        '== QuantifierType values. G4 in every LALR state (contextual lexer replicated: priority, width, unless re-typing) '
        'no alphabetic keyword terminal can match a proper prefix of an identifier run when a name or number could follow. '
        'G5 WS ignored, no terminal matches whitespace, punctuation filtered. G6 every reachable rule has a callback whose '
        'arity / length assertions fit every child layout (layouts computed as lark\'s ChildFilter does, placeholders '
        'included). G7 CONSTANT/TIME_UNIT/TRUE/FALSE/bracket lexemes agree with what the callbacks dispatch on. F1 for '
        'each of the 35 AST-building callbacks the constructor term (factories inlined) routes child i to the field the '
        'intended-tree table names: scope/pattern roles, trigger vs behaviour per keyword, operand order and operator '
        'position, right-nested disjunctions with all alternatives in order, range flags from the outer brackets, literal '
        'values; plus the keyword skeleton of every phrase rule. D4 ms divides by 1000, s is identity. T1 operator table. '
        'Not decided: that lark executes its own tables faithfully; int()/float() on every NUMBER lexeme.'
        ' X12: no callback or AST method with a declared result can fall off its end (a dropped `return` would hand None to the parent callback).'
        ' X6: the parse_* helpers and parser factories keep no module-level or per-object state (a parser cache keyed by start rule made parse_condition and parse_expresion share one transformer: the tree then depends on the call order; seeded C01d4).'
    ),
)

prop(
    'C02',
    ['D1', 'A6', 'M3', 'M6', 'S3', 'S8', 'X9'],
    explanation=(
        'D1: HplProperty.__attrs_post_init__ reaches sanity_check on every path; per pattern type (if-chain folded with the '
        'enum predicate table) the ordered _check_* calls and the provenance of their `available` argument equal the '
        'binding-order table (activator; trigger->behaviour, behaviour->trigger for requires; terminator sees only the '
        'activator aliases); helper bodies: refs checked against available, re-binding checked, own aliases + available '
        'returned; leaf loops raise HplSanityError with the right polarity; duplicate channels in a disjunction; three '
        'quantifier hygiene errors. A6: scope/pattern presence validators. M3/M6: but() goes through evolve so every copy '
        're-runs the check. S3/S8: own alias discarded, disjunction references are the plain union. Not decided: membership '
        'arithmetic inside the three-line loops beyond polarity/operands.'
        ' D1 also requires that the duplicate-channel scan of a disjunction records every name it has seen and that its loop starts (a negated loop condition or a dropped `names.add` finds no repetition). A6 also checks the time-bound validator of a pattern: max_time rejected exactly when below min_time.'
    ),
)

prop(
    'C03',
    ['A3', 'A3r', 'A4', 'T1', 'T2', 'N2', 'N4', 'X9', 'M1', 'M2', 'M3', 'M6'],
    explanation=(
        'A3: each of the 13 expression-typed child fields is narrowed on construction to exactly its parameter type (cast '
        'converter or forcing validator; operand1 vs parameter1, operand2 vs parameter2), both sides of =/!= are unified and '
        'stored back, bound-variable occurrences are checked against the domain element type. A4: operator/function nodes '
        'take data_type from the definition, default_data_type per class, literal type by value kind, own-type validator. '
        'T1/T2: parameter and result types of 18 operators and 27 functions equal the reference. M1/M3/M6: parser and '
        'rewriter create nodes only through those validating constructors. N2: the same-reference check folds a running '
        'intersection over all occurrences of a reference and is reached from the expression validator.'
        ' M2: the rewriter never hands a node it did not build to a forcing constructor without a cast() copy first: otherwise simplify() narrows, in place, a tree the parser handed out earlier, whose occurrences of one reference then disagree (seeded C03d4).'
    ),
)

prop(
    'C04',
    ['T1n', 'T2n', 'A3n', 'A7', 'N1', 'A8', 'F1', 'S5', 'M1', 'L2', 'L3', 'G3', 'D1', 'S3'],
    explanation=(
        'Necessary conditions only: no operator/function parameter type or child-field constraint is narrower than the '
        'reference (T1n/T2n/A3n), no overload is missing, compatibility decisions are intersections (L2/L3: cast/can_be), '
        'every grammatical operator has a table row (G3), alias availability along the binding chain is not lost (D1), no '
        'equality/subset test between type sets dominates a rejection (N1), constants are read as (token, value)[0] (A8), '
        'parser callbacks leave the type set of new nodes to the constructors (F1), the schema walk checks index expressions '
        'against the current message and every occurrence (S5), and type checking never narrows stored types in place (M1: a '
        'second check against another valid schema would fail). '
        'Not decided: completeness of inference for every term; schema side is C17.'
    ),
)

prop(
    'C05',
    ['T1w', 'T2w', 'A3p', 'A3', 'A3u', 'A3r', 'N2', 'N3', 'N4', 'X9', 'F1', 'M6'],
    explanation=(
        'Necessary conditions only: no operator/function parameter type is wider than the reference and no overload was '
        'added (T1w/T2w); every expression-typed child slot has a constraint that is not wider than its parameter type '
        '(A3p); the parser builds through constructors (M6); N2 the same-reference check folds a running intersection '
        'over all occurrences; N3 overload acceptance rejects too few arguments unconditionally, too many unless variadic, '
        'and tests every argument with can_be; A3u both sides of =/!= are unified and stored back; F1 the parser callbacks build every '
        'node through its constructor with the operator taken from the lexeme (no folding that bypasses the operand check). Not decided: value-level behaviour of the inference on every term.'
        ' N3 also requires that every accepting path of a variadic overload with extra arguments has the can_be(variadic) test on its way.'
    ),
)

prop(
    'C07',
    ['X4', 'X3a', 'X1', 'X13', 'X14', 'X15', 'X6', 'A3r', 'S6', 'G6', 'G7', 'G3', 'X5', 'N3'],
    explanation=(
        'X4: the lark call sits in a try whose handlers cover UnexpectedToken/UnexpectedCharacters, each handler raises '
        'HplSyntaxError built only from attributes every handled exception class defines (read from lark\'s own source); '
        'no other try in parser.py except the int()/float() fallback. X3a: over a name-based call graph from the five '
        'parse_* functions and all transformer callbacks (constructors expand to converters, validators, post-init), every '
        'reachable raise site raises one of the four documented classes. X1: no unbound local. G6/G7/G3: no arity, index, '
        'KeyError or unknown-operator failure for grammatical input. A3r: a non-boolean predicate root is rejected with TypeError '
        'before the literal fast path and its assertions. S6: no abstract stub reachable. X6: no state on the '
        'transformer/parser objects, no module-level mutable state written or handed out. X5: assert census (informational). '
        'Not decided: termination/recursion depth, implicit AttributeError on dynamically typed receivers.'
        ' X13: no attribute of a narrower node class is read from an un-narrowed value (AttributeError is not a documented failure).'
        " X15: no parser function reads a constant key of a mapping it fills with computed keys unless a test, a constant-key store or a KeyError handler establishes it (metadata['id'] read in the duplicate-key branch let KeyError leave the parser; seeded C07d4)."
    ),
)

prop(
    'C08',
    ['T3', 'T4', 'R6', 'R7', 'R8', 'R9', 'R10', 'R11', 'R12', 'R13', 'D5', 'V1', 'V3', 'X3b', 'X1', 'X2', 'T6'],
    explanation=(
        'The table-driven parts of the simplifier and its local identities: T3 commutative/associative flags equal the mathematical ground truth '
        '(used by _pre_simplify_binop to commute/re-associate), T4 INVERSE_OPERATORS is the mirror involution (used to flip '
        'comparisons), R6 every node rebuilt by _pre_simplify_binop (113 paths) keeps the operator or its mirror and exactly '
        'the multiset of operands of the input, re-associating only under the associative and swapping only under the '
        'commutative flag, T6 is_* predicates and function-name dispatch strings name the right rows, D5 re-wrapping to the '
        'vacuous predicates, X3b the only explicit raise is ZeroDivisionError under a literal-zero divisor test, X1/X2 no '
        'unbound local / index beyond the smallest overload. R7: the guarded rewrite steps of the 12 leaf simplification '
        'functions reached through the operator dispatchers (addition ... exponentiation, comparison, negation, negative '
        'number, implies, iff, and the leading branches of conjunction / disjunction) are read as schemas over denotations '
        '(operands the guards do not inspect are free; literal / division / negation structure, a == b, _obvious_negatives, '
        '_obviously_different and calls of other simplifier functions are interpreted) and checked in a finite model '
        '(numbers -2..2 and 1/2, truth values): in every assignment that satisfies the guards and defines the input, '
        'the output denotes the same value. R8: the constant folding of len / sum / prod / max / min over a range with '
        'literal bounds, read the same way (the folded value as an arithmetic term over the bounds and exclusion flags, '
        'accumulator loops replayed) on all 196 ranges with integer bounds -3..3: the constant is the number / sum / '
        'product / largest / smallest of the integers the range contains, empty and reversed ranges included. '
        'R9: the len / sum / prod folds over set literals count .values once each, so a simplified set must hold '
        'pairwise distinct elements: every set rebuilt by _simplify comes from set(simplified elements) or after the '
        'len(set(..)) == len(..) test (or the folds remove duplicates themselves). R10: every fold returns a literal '
        'of the declared result type of the function (by the HplLiteral factory used), the call itself or a rebuilt '
        'expression; an argument is handed back unchanged only where its HPL type is established (a Python '
        'isinstance(value, int) does not: bool is an int). R11: the contracts that R7 assumes of the shortcut predicates are '
        'checked the same way - on every path where _obviously_different(a, b) answers True (shape tests read as structure, '
        'a.operand1 == b as equal denotations, asserted literal values as constraints) the two expressions differ in every '
        'assignment of the model, and where _obvious_negatives answers True one is the negation of the other. R12: no '
        'assertion that a first operand is not a literal outside commutative operators. '
        'NOT decided: the duplicate-elimination tails of conjunction / disjunction, constant folding over sets and of the '
        'other functions, non-integer bounds, the helper contracts themselves, values outside the model (NaN, infinities, '
        'float rounding).'
        " V1: HplVacuousTruth / HplContradiction report is_vacuous, is_true and their literal condition (token and value) correctly - simplify's re-wrapping, join and split_and read these constants."
        " R7 enumerates the operator of the input when a path leaves it open (every token the function is dispatched for that the path's tests allow): a negated `if op.is_less_than` is then checked against !=, <=, >, >= instead of being left undecided. R10 also compares the Python function a scalar fold calls with the reference (abs, math.sqrt, ..., math.atan2 with the arguments in order, math.log10 only under base == 10)."
        ' R13: a node rebuilt in hpl.rewrite from the fields of a node of its own class keeps every semantic field (def-use over local names from the constructor / factory arguments back to `x.<field of K>`; fields the call leaves at their default and that are not read from the source node are reported: `HplRange(lb, ub)` from `expr.min_value` loses the exclusion flags); two positive controls and one negative control run every time.'
    ),
)

prop(
    'C11',
    ['D2', 'T7', 'M3', 'S8', 'X6', 'F1'],
    explanation=(
        'D2: canonical_form evaluated per pattern type x scope type (20 cells, dispatch folded with the enum predicate '
        'tables): split field of the pattern is behaviour (absence/requirement/prevention), trigger (response) or none '
        '(existence); split field of the scope is activator (after, after-until) or none; alternatives come from '
        '<field>.simple_events() unfiltered; the result is the scope-major product of property.but(scope=, pattern=) copies; '
        '[property] itself when nothing splits; nothing but the kinds decides. T7 safety/liveness partition. M3 but() carries '
        'metadata and everything else. S8 simple_events() order. X6 no memoisation / shared state (results keyed by == would '
        'share metadata and identity between distinct properties).'
    ),
)

prop(
    'C12',
    ['D2s', 'M3', 'T7', 'R13'],
    explanation=(
        'The repository has no trace semantics; the code-dependent part of the property is which positions are split and '
        'that copies differ in nothing else. D2s: the split set extracted from canonical_form (20 cells) is inside the '
        'sound-position table {absence/requirement/prevention behaviour, response trigger, after* activator}. The '
        'distribution lemma (forall/not-exists over a union of occurrence sets distributes as conjunction; exists does not) '
        'is the trusted base. R13: a scope / pattern / event rebuilt in hpl.rewrite from the fields of the old one keeps the remaining fields (an `HplScope.after(e)` copy of an after-until scope loses the terminator).'
    ),
    assumptions=['distribution lemma for scope windows (DESIGN.md C12)'],
)

prop(
    'C14',
    ['X1', 'X2', 'X12', 'X13', 'X14', 'X3b', 'X3c', 'X10', 'R10', 'R12', 'R14', 'S3', 'R2', 'T2', 'X5r', 'T4'],
    explanation=(
        'X1 definite assignment over all 614 functions; X2 call.arguments[k] vs the smallest overload of the function the '
        'branch dispatches on; X3b explicit raises of rewrite.py are the documented ones; X5r assert census of everything '
        'reachable from the public rewrite functions (informational); X3c every but()/construction site in rewrite.py of a '
        'class with semantic validators (sanity, presence, hygiene: derived from the raise classes of its validators) either '
        'leaves the fields those validators read untouched or is justified by a checked fact (alternative of the same '
        'field; same variable/domain and a body part that mentions the variable); S3 the contains_reference queries that the '
        'shape assertions rely on cover every slot; R10 a function fold yields a literal of the declared result type, the '
        'call, a rebuilt expression, or an argument whose HPL type is established (expression in, expression of the same '
        'type out; a wrongly typed fold makes the rebuilt parent raise); R12 the simplifier does not assert the literal-last normal form for non-commutative operators (`(1 - x) = 1` raised AssertionError). Not decided: TypeError from re-validation of operand types (assumed), '
        'the remaining shape assertions.'
        ' X12: no function with a declared (non-Optional) result falls off the end of its body.'
        ' R14: an operator node that a simplifier function builds over a literal it has just made is returned through the simplifier (reaching definitions by line order and common loop): otherwise x + 0 / x * 1 survives and the value assertion in _obviously_different (`operand2.value != 0  # due to simplification`) fails on `sum({@v}) = @v` (seeded C14d4).'
        ' X13: an attribute that only some node classes have is read only where the path (or the earlier operands of the same boolean expression) has narrowed the value to classes that all have it - by is_<kind> flags (kind table), isinstance tests / asserts, arity and operator tests; otherwise a valid input of another kind raises AttributeError (614 functions, no hit on the current tree). X14: every kind assertion (assert isinstance(x, C), assert x.is_<kind>) is implied by the kind tests the path has made on x, so it cannot fail on a well-formed input.'
    ),
)

prop(
    'C17',
    ['S5', 'S10', 'F3', 'T5', 'A5', 'A8', 'A9', 'X8', 'X1', 'X12', 'V3', 'M1', 'S8'],
    explanation=(
        'S5 the generic walk pushes all children of every non-accessor node and accessors visit object chain and index; F3 '
        'provenance of the alias -> type mapping; T5 (u)intN bounds computed from the bit width; A5 token validators '
        '(max>=min, length>=-1, contains_index, enumerated kinds, base types); A8 constants are read as (token, value)[0], '
        'contains_name reads both tables, get_type_of prefers fields; A9 leaf_fields composes full dotted paths (recursive or '
        'prefix-carrying work list); X8 no Mapping iterated as pairs without .items(). Not decided: the iff for every schema, comparison results inside _get_next_token.'
        " S10: access-path resolution as a checked protocol: the walk down .object while is_accessor pushing every accessor; the root typed by the current message for `this` and by the caller's alias map for a variable (an empty map only when none was given); HplSanityError exactly when the root has no type token; the resolution loop t = accessor._get_next_token(t), accessor checked against t.type (argument order), index expressions checked against the same schema; _get_next_token of both accessor classes as exact decision lists (fields before constants, constants entry [0], element type, errors otherwise). X1/X12: no unbound name, no missing return in the schema code."
    ),
)

prop(
    'C18',
    ['G8', 'F2', 'X6', 'G6', 'G5', 'M4', 'X12'],
    explanation=(
        'G8 hpl_file is a non-nullable left-recursive list of properties, metadata keys are exactly id/title/description, '
        'LALR tables build for every start. F2 hpl_file keeps all children in order (no converter that reorders or '
        'deduplicates), hpl_property attaches exactly its own annotations to the new object, metadata builds a fresh dict, '
        'tests every key for repetition and raises HplSyntaxError. X6 no state on the shared transformer. G6 arity.'
        ' X12: the metadata callbacks and hpl_property return on every path.'
    ),
)

prop(
    'C06',
    ['P1', 'P2', 'P3', 'P5', 'P6', 'F4', 'A1', 'A2', 'F1', 'D4'],
    explanation=(
        'String-template abstract interpretation of all 20 printers compared with the compiled grammar annotated by F1. '
        'P1 every class prints through a package __str__. P2 on every print path every equality-relevant field the parser '
        'can vary is printed itself (not a projection of it), selects between distinct literals (brackets, keywords per '
        'scope/pattern kind), or is pinned by the path guard / the class validators (None alias, INF bound, GLOBAL scope). '
        'P3 every print alternative is word for word and slot for slot a variant of a grammar rule that builds the class, '
        'with each slot where F1 says that child feeds that field (roles per keyword, operand order, bracket <-> flag, time '
        'unit), operators and quantifiers inside one pair of parentheses (precedence-free nesting). P5 restructured n-ary '
        'nodes print flat. P6 numeric fields are printed without arithmetic. F4 no NaN in an ==-compared field. A1/A2 '
        'equality/hash are the generated ones and ignore only metadata. Not decided: repr(float)/float() exactness '
        '(trusted), re-lexing of literal tokens.'
    ),
)

prop(
    'C09',
    ['R1', 'R4', 'R4b', 'X3b', 'S3', 'T2', 'V3'],
    explanation=(
        'Schema extraction + finite-model check. R1: for every syntactic path of _split_and_not, _split_and_quantifier and '
        '_and_presplit_transform the input shape is read from the guards (is_not/is_or/is_implies/quantifier kind, '
        'contains_reference(variable) flags, recursive helper calls as induction hypotheses), the returned constructor term '
        'is converted to a formula over opaque atoms, and input == output is checked in every model with domain size 0..3 '
        '(atoms that mention the bound variable are unary predicates, the others propositions; an atom that mentions the '
        'variable outside its quantifier is an escape); every divisible shape named by the property has a transforming '
        'branch. R4: the work list skips literal true, raises ValueError exactly for literal false, pushes both operands of '
        'conjunctions after the transformation and emits everything else once. R4b: the public entry point delegates '
        'predicates and expressions to the splitter without shortcuts (a vacuous contradiction must reach the ValueError). X3b: documented raises only. S3: the '
        'contains_reference queries that decide the side conditions cover every slot. Not decided: shapes outside the table '
        '(returned unchanged).'
        ' V3: the kind flags the split rules branch on equal the reference table.'
    ),
    assumptions=['monadic first-order formulas with <= 3 predicates: domain sizes 0..3 exhaust the relevant models for these schemas (one quantifier, emptiness test)'],
)

prop(
    'C10',
    ['R2', 'S3', 'T2', 'V3'],
    explanation=(
        'R2: for every path of _refactor_ref_expr, _split_ref_operator, _split_ref_negation and _split_ref_quantifier the '
        'returned pair (f1, f2) is converted to formulas as in R1 and f1 & f2 == input is checked in all models with domain '
        'size 0..3 (so a conjunct hoisted out of a universal quantifier without the empty-domain guard, or one that '
        'mentions the bound variable, is found); f1 consists only of parts whose contains_reference(alias) flag is false on '
        'that path; delegations to sibling helpers pass an equivalent formula; alias absent -> (input itself, True). S3: '
        'contains_reference covers every slot of every class.'
        ' V3: the kind flags the split rules branch on equal the reference table.'
    ),
)

prop(
    'C13',
    ['R3', 'R5', 'R5b', 'V1', 'V3', 'S4', 'S3', 'X12', 'X13'],
    explanation=(
        'R3: negate/join of the three predicate classes against the combinator table (~T=F, ~F=T, ~~p=p only under a "not" '
        'guard, ~p=Not(p); T&q=q, F&q=F, p&T=p, p&F=F, p&q=And(p,q)); predicate_from_expression maps literal conditions to '
        'the vacuous predicates. R5: replace_this_with_var builds "@"+alias, wrappers call the matching replace_*; leaf '
        'overrides substitute exactly the matching node; the event constructor rewrites its own alias to the message. S4: '
        'reshape passes every slot of every expression class through f in both arms, deep arm recursing first, identity '
        'only when ALL slots are unchanged, rebuilt with but(). Not decided: capture by quantifiers (excluded by the '
        'statement).'
        ' R5b: substitutions are carried through predicates, simple events and event disjunctions with but(<child>=<child>.<same method>(same arguments in order)), identity only when every child came back unchanged; the vacuous predicates answer with themselves. V1: the constants the combinators read (is_vacuous, is_true, condition literal).'
        ' X13: the combinators read .operator / .operand only under a kind test.'
    ),
)

"""Which rules decide which property (DESIGN.md section 5)."""
from .driver import prop

prop(
    'C20',
    ['L1', 'L2', 'L3', 'L4'],
    explanation=(
        'Static idiom check of hpl.types.DataType: L1 folds the member expressions (seven auto() members, NONE empty, '
        'PRIMITIVE/ITEM/COMPOUND/ANY the stated unions); L2 extracts every syntactic path of cast() and requires: each '
        'return yields self & t on a path that established a non-empty intersection, each raise is a TypeError on a path '
        'that established an empty one, both exist; L3 requires can_be and the seven can_be_x to be the truthiness of the '
        'intersection with t / exactly that base; L4 requires union to be an unconditional |-fold from the empty set over '
        'every element. Given enum.Flag semantics these bodies are intersection / non-empty intersection / least upper '
        'bound for all 128x128 pairs, so idempotence, commutativity, associativity and monotonicity follow from set algebra. '
        'Decides the code shape, not by evaluation of the 128x128 table.'
    ),
    assumptions=['enum.Flag: & is set intersection, | is set union, truthiness is non-emptiness, auto() yields distinct single bits'],
)

"""Which rules decide which property (DESIGN.md section 5)."""
from .driver import prop

prop(
    'C20',
    ['L1', 'L2', 'L3', 'L4'],
    explanation=(
        'Static idiom check of hpl.types.DataType: L1 folds the member expressions (seven auto() members, NONE empty, '
        'PRIMITIVE/ITEM/COMPOUND/ANY the stated unions); L2 extracts every syntactic path of cast() and requires: each '
        'return yields self & t on a path that established a non-empty intersection, each raise is a TypeError on a path '
        'that established an empty one, both exist; L3 requires can_be and the seven can_be_x to be the truthiness of the '
        'intersection with t / exactly that base; L4 requires union to be an unconditional |-fold from the empty set over '
        'every element. Given enum.Flag semantics these bodies are intersection / non-empty intersection / least upper '
        'bound for all 128x128 pairs, so idempotence, commutativity, associativity and monotonicity follow from set algebra. '
        'Decides the code shape, not by evaluation of the 128x128 table.'
    ),
    assumptions=['enum.Flag: & is set intersection, | is set union, truthiness is non-emptiness, auto() yields distinct single bits'],
)

prop(
    'C19',
    ['C1', 'C2', 'C3'],
    explanation=(
        'Path extraction of hpl.cli.main (try/except summarised per handler): C1 every handler path prints a diagnostic, '
        'returns a non-zero int and prints no JSON; the only return 0 is reached by completing the try body with the '
        'result of a parse_* call; Exception is handled; every parse_* call is lexically inside that try. C2 the success '
        'paths are guarded by the -p flag (dest resolved from add_argument): set -> parse_property(raw argument), unset '
        '-> parse_specification(text read from the file named by the argument). C3 the JSON path prints '
        'json.dumps(asdict(parse result, value_serializer=S)) to stdout with no filter/recurse=False; S maps Enum -> '
        '.value, non-finite float -> None under an isinstance(float) guard, everything else unchanged; the closure of '
        'field types reachable from HplSpecification is JSON-native after that mapping. Not decided: argparse usage '
        'errors/--version exits, wording of diagnostics, attrs.asdict itself (trusted).'
    ),
    assumptions=['attrs.asdict recurses into attrs instances, tuples and dicts and applies value_serializer to every leaf', 'json.dumps of str/int/finite float/bool/None/list/dict is strictly valid JSON'],
)

prop(
    'C15',
    ['S1', 'S2', 'S3', 'S6', 'S7', 'S8'],
    explanation=(
        'Sibling agreement of the per-class protocol with the slot table derived from attrs field annotations (20 concrete '
        'AST classes, 23 child slots). S2: children() evaluated per enum member / None-ness combination allowed by the '
        "class's validators returns exactly the non-None slots, each once. S3: for each of external_references, "
        'contains_reference, contains_self_reference, contains_definition and each concrete class, the method resolved '
        'through the MRO consults every slot (directly or by iterating children()), combines with or/any resp. union, '
        'removes only the bound variable (HplQuantifier) / own alias (HplSimpleEvent), never returns a shared module-level '
        'container, and the leaf/binder base cases hold (HplVarReference: {name}, alias == name, name = token[1:]; '
        'HplThisMessage: self-reference; literals: nothing; quantifier defines its variable). S6: no abstract stub is '
        'reachable on a concrete class. S7: iterate() is the explicit-stack (pop from end, extend(reversed(children)), '
        'yield once) or recursive pre-order idiom. S8: aliases()/simple_events() enumerate event1 then event2; '
        'HplProperty.events() yields all four positions. Not decided: check_some_self_references (own-field check).'
    ),
)

prop(
    'C16',
    ['A1', 'A2', 'M1', 'M2', 'M3', 'M4', 'M5', 'M6'],
    explanation=(
        'Ownership/effect analysis. A1: all 36 AST / type-token / definition classes are @frozen with generated eq/hash and '
        'define no __eq__/__hash__/__setattr__. A2: metadata is factory=dict, init=False, eq=False and no other AST field is '
        'excluded from equality. M1 (who may write): every object.__setattr__/setattr/__dict__ site in the package is either '
        'on self inside __attrs_post_init__ or the single narrowing write of _type_check under `force`; force=True is passed '
        'only by attrs field validators, on the value being validated, at a fixed parameter type. M2: every call of a forcing '
        'constructor (classes whose operand validators narrow the argument object in place: derived from the validators) in '
        'rewrite.py / predicates.py / events.py / properties.py is checked by a may-provenance dataflow: an argument that '
        'may be drawn from a child slot whose stored type is wider than the parameter type (set elements, function '
        'arguments, ...) must be cast (copied) first. M3: but() returns self only after an identity (`is`) comparison of every '
        'given value, otherwise evolve() + metadata entries copied into the new dict, never shared. M4: .metadata is mutated '
        'only on objects constructed in the same function. M5: cast() returns self or self.but(data_type=self.data_type & t) '
        'and never writes. M6: no copy/__new__/evolve/__dict__ in rewrite/parser/AST modules. Not decided: M2 for operands '
        'of operator nodes re-wrapped under guards (listed as undecided sites), mutation of metadata by callers.'
    ),
    assumptions=['the _simplify* family and helper calls return fresh nodes or nodes already bounded by their own construction sites (assumed, see DESIGN M2 (g))'],
)

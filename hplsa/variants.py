"""Behaviour-preserving variants of the analysed tree (AST transformations and small hand-written refactorings).
Every check must stay silent on each of them: they are the no-alarm half of the self-validation bank."""
import ast
import os

def py_files(root):
    for dp, dn, fn in os.walk(root):
        for f in fn:
            if f.endswith('.py') and f != '_unused.py':
                yield os.path.join(dp, f)


def v_unparse(root):
    """reformat every module through ast.unparse (comments dropped, layout and line numbers change)"""
    for p in py_files(root):
        src = open(p, encoding='utf8').read()
        open(p, 'w', encoding='utf8').write(ast.unparse(ast.parse(src)) + '\n')


def v_reorder(root):
    """reverse the order of consecutive method definitions in every class"""
    for p in py_files(root):
        tree = ast.parse(open(p, encoding='utf8').read())
        for node in ast.walk(tree):
            if isinstance(node, ast.ClassDef):
                body, run = [], []
                for st in node.body:
                    if isinstance(st, ast.FunctionDef):
                        run.append(st)
                    else:
                        body.extend(reversed(run)); run = []
                        body.append(st)
                body.extend(reversed(run))
                node.body = body
        open(p, 'w', encoding='utf8').write(ast.unparse(tree) + '\n')


class _Rename(ast.NodeTransformer):
    def __init__(self, names):
        self.names = names
    def visit_Name(self, node):
        if node.id in self.names:
            return ast.copy_location(ast.Name(id=node.id + '_v', ctx=node.ctx), node)
        return node
    def visit_FunctionDef(self, node):
        return node  # nested scopes untouched
    visit_Lambda = visit_FunctionDef
    def visit_ExceptHandler(self, node):
        if node.name in self.names:
            node.name = node.name + '_v'
        self.generic_visit(node)
        return node


def v_rename(root):
    """rename every local variable (not parameters) of every function"""
    for p in py_files(root):
        tree = ast.parse(open(p, encoding='utf8').read())
        for fn in [n for n in ast.walk(tree) if isinstance(n, ast.FunctionDef)]:
            params = {a.arg for a in fn.args.posonlyargs + fn.args.args + fn.args.kwonlyargs}
            if fn.args.vararg: params.add(fn.args.vararg.arg)
            if fn.args.kwarg: params.add(fn.args.kwarg.arg)
            stores = set()
            nested = set()
            for n in ast.walk(fn):
                if isinstance(n, (ast.FunctionDef, ast.Lambda)) and n is not fn:
                    for m in ast.walk(n):
                        if isinstance(m, ast.Name):
                            nested.add(m.id)
            todo = list(fn.body)
            while todo:
                n = todo.pop()
                if isinstance(n, (ast.FunctionDef, ast.Lambda, ast.ListComp, ast.SetComp, ast.DictComp, ast.GeneratorExp)):
                    for m in ast.walk(n):
                        if isinstance(m, ast.Name):
                            nested.add(m.id)
                    continue
                if isinstance(n, ast.Name) and isinstance(n.ctx, ast.Store):
                    stores.add(n.id)
                if isinstance(n, ast.ExceptHandler) and n.name:
                    stores.add(n.name)
                if isinstance(n, (ast.Global, ast.Nonlocal)):
                    nested.update(n.names)
                todo.extend(ast.iter_child_nodes(n))
            names = stores - params - nested
            if names:
                rn = _Rename(names)
                fn.body = [rn.visit(st) for st in fn.body]
        open(p, 'w', encoding='utf8').write(ast.unparse(tree) + '\n')


def sub(path, old, new, count=1):
    s = open(path, encoding='utf8').read()
    assert s.count(old) == count, (path, old[:40], s.count(old))
    open(path, 'w', encoding='utf8').write(s.replace(old, new))


def v_idioms(root):
    """hand-written equivalent idioms (each known to preserve behaviour)"""
    sub(f'{root}/types.py', "        r = self & t\n", "        r = t & self\n")
    sub(f'{root}/types.py', "            result = result | t\n", "            result |= t\n")
    sub(f'{root}/types.py', "        return bool(self & t)\n", "        return bool(t & self)\n")
    sub(f'{root}/parser.py', """        if len(children) == 3:
            op = _convert_binary_operator(children[1])
            lhs = children[0].cast(op.parameter1)
            rhs = children[2].cast(op.parameter2)
            return HplBinaryOperator(op, lhs, rhs)
        return children[0]  # len(children) == 1""", """        if len(children) == 1:
            return children[0]
        left, token, right = children
        op = _convert_binary_operator(token)
        return HplBinaryOperator(op, left.cast(op.parameter1), right.cast(op.parameter2))""")
    sub(f'{root}/rewrite.py', "        return And(Not(phi.a), Not(phi.b))\n", "        return And(Not(phi.b), Not(phi.a))\n")
    sub(f'{root}/ast/base.py', """        stack = [self]
        while stack:
            obj = stack.pop()
            stack.extend(reversed(obj.children()))
            yield obj""", """        yield self
        for child in self.children():
            yield from child.iterate()""")
    sub(f'{root}/ast/expressions.py', "            return self if r == self.data_type else self.but(data_type=r)\n", "            if r == self.data_type:\n                return self\n            return self.but(data_type=r)\n")
    sub(f'{root}/ast/events.py', """        for event in self.event1.simple_events():
            yield event
        for event in self.event2.simple_events():
            yield event""", """        yield from self.event1.simple_events()
        yield from self.event2.simple_events()""")
    sub(f'{root}/cli.py', "    if isinstance(value, float) and (isinf(value) or isnan(value)):\n", "    if isinstance(value, float) and not math.isfinite(value):\n")
    sub(f'{root}/cli.py', "from math import isinf, isnan\n", "import math\n")


def v_additions(root):
    """additions that leave every stated property intact: a new operator-free helper, a new function, a new AST-less class"""
    sub(f'{root}/ast/expressions.py', "    @classmethod\n    def yaw(cls) -> 'FunctionDefinition':", "    @classmethod\n    def sign(cls) -> 'FunctionDefinition':\n        return cls.f('sign', DataType.NUMBER, DataType.NUMBER)\n\n    @classmethod\n    def yaw(cls) -> 'FunctionDefinition':")
    sub(f'{root}/ast/expressions.py', "    YAW = FunctionDefinition.yaw()\n", "    YAW = FunctionDefinition.yaw()\n    SIGN = FunctionDefinition.sign()\n")
    sub(f'{root}/rewrite.py', "def true() -> HplLiteral:", "def is_literal(expr: HplExpression) -> bool:\n    return expr.is_value and expr.is_literal\n\n\ndef true() -> HplLiteral:")
    sub(f'{root}/types.py', "STRINGS: Final[TypeToken] = TypeToken('string', type=DataType.STRING)\n", "STRINGS: Final[TypeToken] = TypeToken('string', type=DataType.STRING)\nCHARS: Final[TypeToken] = TypeToken('char', type=DataType.STRING)\n")


VARIANTS = {'unparse': v_unparse, 'reorder': v_reorder, 'rename': v_rename, 'idioms': v_idioms, 'additions': v_additions}




def v_idioms2(root):
    """a second family of equivalent re-implementations (immediate raise, all(), broader handler, exit-code variable)"""
    # metadata: raise as soon as a key repeats (same error, same message for the first duplicate)
    sub(f'{root}/parser.py', """        metadata: Dict[str, Any] = {}
        pid = None
        dup = None
        for key, value in children:
            if key == 'id':
                pid = value
            if key in metadata:
                dup = key
            metadata[key] = value
        if dup is not None:
            raise HplSyntaxError.duplicate_metadata(dup, pid=pid)
        return metadata""", """        metadata: Dict[str, Any] = {}
        for key, value in children:
            if key in metadata:
                raise HplSyntaxError.duplicate_metadata(key, pid=metadata.get('id'))
            metadata[key] = value
        return metadata""")
    # but(): all() instead of for/else
    sub(f'{root}/ast/base.py', """            for key, value in kwargs.items():
                if getattr(self, key) is not value:
                    break
            else:
                return self  # nothing changes""", """            if all(getattr(self, key) is value for key, value in kwargs.items()):
                return self  # nothing changes""")
    # reshape of sets: all() instead of for/else
    sub(f'{root}/ast/expressions.py', """        for previous, value in zip(self.values, values):
            if value is not previous:
                break
        else:
            return self
        return self.but(values=values)""", """        if all(value is previous for previous, value in zip(self.values, values)):
            return self
        return self.but(values=values)""")
    # parser: catch the common base class of lark's input errors
    sub(f'{root}/parser.py', "from lark.exceptions import UnexpectedCharacters, UnexpectedToken\n", "from lark.exceptions import UnexpectedInput\n")
    sub(f'{root}/parser.py', "        except (UnexpectedToken, UnexpectedCharacters, SyntaxError) as e:\n", "        except (UnexpectedInput, SyntaxError) as e:\n")
    # cli: exit code through a variable
    sub(f'{root}/cli.py', """    except HplSyntaxError as hse:
        print('Syntax error:', file=sys.stderr)
        print(hse, file=sys.stderr)
        return 1
""", """    except HplSyntaxError as hse:
        print('Syntax error:', file=sys.stderr)
        print(hse, file=sys.stderr)
        status = 1
        return status
""")
    # children of a scope built incrementally
    sub(f'{root}/ast/properties.py', """        if self.activator is None and self.terminator is None:
            return ()
        if self.activator is None:
            return (self.terminator,)
        if self.terminator is None:
            return (self.activator,)
        return (self.activator, self.terminator)""", """        events = ()
        if self.activator is not None:
            events = events + (self.activator,)
        if self.terminator is not None:
            events = events + (self.terminator,)
        return events""")
    # union through functools.reduce-free comprehension is not equivalent; keep fold but with explicit start name
    sub(f'{root}/types.py', "        result = DataType.NONE\n", "        result = DataType(0)\n")
    # sanity check: terminator first computed, same order of effects
    sub(f'{root}/ast/properties.py', """        if self.pattern.is_absence or self.pattern.is_existence:
            self._check_behaviour(initial)""", """        if self.pattern.is_existence or self.pattern.is_absence:
            self._check_behaviour(initial)""")


VARIANTS['idioms2'] = v_idioms2


def v_rename_private(root):
    """rename every private (single underscore) function and method of the package consistently: _name -> _name_r
    (the rules anchor on many of these names; the model recognises them by where they are called from)"""
    files = list(py_files(root))
    names = set()
    for p in files:
        for n in ast.walk(ast.parse(open(p, encoding='utf8').read())):
            if isinstance(n, ast.FunctionDef) and n.name.startswith('_') and not n.name.startswith('__'):
                names.add(n.name)

    class R(ast.NodeTransformer):
        def visit_FunctionDef(self, n):
            self.generic_visit(n)
            if n.name in names:
                n.name += '_r'
            return n

        def visit_Name(self, n):
            if n.id in names:
                n.id += '_r'
            return n

        def visit_Attribute(self, n):
            self.generic_visit(n)
            if n.attr in names:
                n.attr += '_r'
            return n

        def visit_alias(self, n):
            if n.name in names:
                n.name += '_r'
            return n
    for p in files:
        t = R().visit(ast.parse(open(p, encoding='utf8').read()))
        open(p, 'w', encoding='utf8').write(ast.unparse(ast.fix_missing_locations(t)) + '\n')


VARIANTS['rename_private'] = v_rename_private

"""Helpers shared by rule engines."""
from __future__ import annotations

from typing import Iterable, List, Optional, Tuple

from .terms import (Attr, BoundMethod, Call, Comp, Const, Ext, Guard, Loop, Op, Outcome, Sym, Term, TupleT, walk)


def call_name(c: Call) -> Optional[str]:
    f = c.func
    if isinstance(f, BoundMethod):
        return f.name
    if isinstance(f, Attr):
        return f.name
    if isinstance(f, Ext):
        return f.name
    return None


def call_recv(c: Call) -> Optional[Term]:
    f = c.func
    if isinstance(f, BoundMethod):
        return f.recv
    if isinstance(f, Attr):
        return f.base
    return None


def method_calls(terms: Iterable[Term], name: str) -> List[Call]:
    out = []
    for t in terms:
        for x in walk(t):
            if isinstance(x, Call) and call_name(x) == name and call_recv(x) is not None:
                out.append(x)
    return out


def outcome_terms(o: Outcome) -> List[Term]:
    ts: List[Term] = []
    if o.value is not None:
        ts.append(o.value)
    ts.extend(o.effects)
    ts.extend(t for t, _ in o.guards)
    ts.extend(o.asserts)
    ts.extend(t for t in o.trace if t not in o.effects)
    return ts


def all_terms(outs: Iterable[Outcome]) -> List[Term]:
    ts: List[Term] = []
    for o in outs:
        ts.extend(outcome_terms(o))
    return ts


def is_self_attr(t: Term, name: Optional[str] = None, self_name: str = 'self') -> bool:
    return isinstance(t, Attr) and isinstance(t.base, Sym) and t.base.name == self_name and (name is None or t.name == name)


def none_test(t: Term) -> Optional[Tuple[Term, bool]]:
    """(x, True) if t means `x is None`; (x, False) if it means `x is not None`"""
    if isinstance(t, Op) and t.op in ('is', '==') and len(t.args) == 2 and t.args[1] == Const(None):
        return (t.args[0], True)
    if isinstance(t, Op) and t.op in ('is not', '!=') and len(t.args) == 2 and t.args[1] == Const(None):
        return (t.args[0], False)
    if isinstance(t, Op) and t.op == 'not' and len(t.args) == 1:
        inner = none_test(t.args[0])
        if inner:
            return (inner[0], not inner[1])
    return None

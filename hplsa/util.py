"""Helpers shared by rule engines."""
from __future__ import annotations

from typing import Iterable, List, Optional, Tuple

from .terms import (Attr, BoundMethod, Call, Comp, Const, Ext, Guard, Loop, Op, Outcome, Sym, Term, TupleT, walk)


def call_name(c: Call) -> Optional[str]:
    f = c.func
    if isinstance(f, BoundMethod):
        return f.name
    if isinstance(f, Attr):
        return f.name
    if isinstance(f, Ext):
        return f.name
    return None


def call_recv(c: Call) -> Optional[Term]:
    f = c.func
    if isinstance(f, BoundMethod):
        return f.recv
    if isinstance(f, Attr):
        return f.base
    return None


def method_calls(terms: Iterable[Term], name: str) -> List[Call]:
    out = []
    for t in terms:
        for x in walk(t):
            if isinstance(x, Call) and call_name(x) == name and call_recv(x) is not None:
                out.append(x)
    return out


def outcome_terms(o: Outcome) -> List[Term]:
    ts: List[Term] = []
    if o.value is not None:
        ts.append(o.value)
    ts.extend(o.effects)
    ts.extend(t for t, _ in o.guards)
    ts.extend(o.asserts)
    ts.extend(t for t in o.trace if t not in o.effects)
    return ts


def all_terms(outs: Iterable[Outcome]) -> List[Term]:
    ts: List[Term] = []
    for o in outs:
        ts.extend(outcome_terms(o))
    return ts


def is_self_attr(t: Term, name: Optional[str] = None, self_name: str = 'self') -> bool:
    return isinstance(t, Attr) and isinstance(t.base, Sym) and t.base.name == self_name and (name is None or t.name == name)


def none_test(t: Term) -> Optional[Tuple[Term, bool]]:
    """(x, True) if t means `x is None`; (x, False) if it means `x is not None`"""
    if isinstance(t, Op) and t.op in ('is', '==') and len(t.args) == 2 and t.args[1] == Const(None):
        return (t.args[0], True)
    if isinstance(t, Op) and t.op in ('is not', '!=') and len(t.args) == 2 and t.args[1] == Const(None):
        return (t.args[0], False)
    if isinstance(t, Op) and t.op == 'not' and len(t.args) == 1:
        inner = none_test(t.args[0])
        if inner:
            return (inner[0], not inner[1])
    return None


def search_tests(ev, guards, found: bool = True) -> List[Tuple[Term, Term, Term]]:
    """Searches among the guards of a path that found something: [(iterable, element symbol, condition on the element)]
    for `any(c(x) for x in it)`, `any(map(f, it))`, `next(filter(f, it), None) is not None` and
    `next((x for x in it if c(x)), None) is not None` taken on the side where an element exists."""
    from .terms import Lam, FuncRef, _State

    def mk_and(ts):
        ts = tuple(ts)
        return ts[0] if len(ts) == 1 else Op('and', ts)
    out: List[Tuple[Term, Term, Term]] = []

    def applied(f: Term, each: Term) -> Optional[Term]:
        if isinstance(f, (Lam, FuncRef, BoundMethod)):
            st = _State()
            return ev.apply(f, (each,), (), st, 0)
        if isinstance(f, Attr) and f.name == '__contains__':
            return Op('in', (each, f.base))     # container.__contains__ as a predicate
        from .terms import Ite
        if isinstance(f, Ite) and isinstance(f.a, Attr) and isinstance(f.b, Attr) and f.a.name == f.b.name == '__contains__':
            return Op('in', (each, Ite(f.test, f.a.base, f.b.base)))
        return None

    def source(src: Term) -> Optional[Tuple[Term, Term, Term]]:
        if isinstance(src, Comp) and len(src.gens) == 1:
            tgt, it, ifs = src.gens[0]
            each = Sym(f'each:{tgt}')
            return it, each, (ifs, src.elt)
        if isinstance(src, Call) and isinstance(src.func, Ext) and src.func.name in ('filter', 'map') and len(src.args) == 2:
            each = Sym('each:<item>')
            c = applied(src.args[0], each)
            if c is not None:
                return src.args[1], each, ((c,), each) if src.func.name == 'filter' else ((), c)
        return None

    def unwrap(src: Term) -> Term:
        """tuple(...) / list(...) / itertools.islice(x, n) around a source say nothing about whether it is empty"""
        while isinstance(src, Call) and isinstance(src.func, Ext) and src.args and \
                (src.func.name in ('tuple', 'list') and len(src.args) == 1 or src.func.name.split('.')[-1] == 'islice' and len(src.args) == 2):
            src = src.args[0]
        return src
    for t, pol in guards:
        neg = False
        while isinstance(t, Op) and t.op == 'not' and len(t.args) == 1:
            t, neg = t.args[0], not neg
        pol2 = (pol != neg) == found
        # the truth value of a filtered collection: [x for x in it if c] / tuple(islice(filter(p, it), 1))
        u = unwrap(t)
        if (isinstance(u, Comp) and u.kind in ('list', 'gen', 'set') and len(u.gens) == 1 and u.gens[0][2]) or \
                (isinstance(u, Call) and isinstance(u.func, Ext) and u.func.name == 'filter' and len(u.args) == 2 and u is not t or (isinstance(u, Call) and isinstance(u.func, Ext) and u.func.name == 'filter' and isinstance(t, Call))):
            s0 = source(u)
            if s0 and pol2:
                it, each, (ifs, elt) = s0
                if elt == each and ifs:
                    out.append((it, each, mk_and(tuple(ifs))))
            continue
        if isinstance(t, Call) and isinstance(t.func, Ext) and t.func.name == 'any' and len(t.args) == 1 and pol2:
            s = source(t.args[0])
            if s:
                it, each, (ifs, elt) = s
                out.append((it, each, mk_and(tuple(ifs) + (elt,))))
            continue
        # next(<filtered source>, SENTINEL) is not SENTINEL  (None, or a module-level object())
        nt = None
        if isinstance(t, Op) and t.op in ('is', 'is not', '==', '!=') and len(t.args) == 2:
            for a, b in (t.args, t.args[::-1]):
                if isinstance(a, Call) and isinstance(a.func, Ext) and a.func.name == 'next' and len(a.args) == 2 and a.args[1] == b \
                        and (b == Const(None) or (isinstance(b, Call) and isinstance(b.func, Ext) and b.func.name == 'object' and not b.args)):
                    nt = (a, t.op in ('is', '=='))
        if nt and (nt[1] != pol2):
            s = source(nt[0].args[0])
            if s:
                it, each, (ifs, elt) = s
                if elt == each and ifs:
                    out.append((it, each, mk_and(tuple(ifs))))
    return out


def exists_form(ev, outs) -> Optional[Tuple[Term, Term, Term]]:
    """(iterable, element symbol, condition) when the outcomes are those of `there is an element of <iterable> with
    <condition>`: `return any(c(x) for x in it)`, or a loop that returns True at the first match and False after it."""
    rets = [o for o in outs if o.kind == 'return']
    if len(rets) != len(outs) or not rets:
        return None
    if len(rets) == 1 and not rets[0].guards:
        found = search_tests(ev, ((rets[0].value, True),))
        return found[0] if len(found) == 1 else None
    if len(rets) == 2:
        hit = [o for o in rets if o.value == Const(True)]
        miss = [o for o in rets if o.value == Const(False) and not o.guards]
        if len(hit) == 1 and len(miss) == 1:
            it = [g for g, pol in hit[0].guards if isinstance(g, Op) and g.op == 'iterating' and pol]
            rest = [(g, pol) for g, pol in hit[0].guards if not (isinstance(g, Op) and g.op == 'iterating')]
            loops = [e for e in miss[0].effects if isinstance(e, Loop)]
            if len(it) == 1 and len(loops) == 1 and loops[0].iter == it[0].args[0] and not loops[0].raises and all(not effs for _, _, _, effs in loops[0].paths) \
                    and len(miss[0].effects) == 1 and rest and all(pol for _, pol in rest):
                each = [x for g, _ in rest for x in walk(g) if isinstance(x, Sym) and x.name.startswith('each:')]
                if each and all(e == each[0] for e in each):
                    conds = tuple(g for g, _ in rest)
                    return it[0].args[0], each[0], conds[0] if len(conds) == 1 else Op('and', conds)
    return None


def devirtualise(ctx, ev, outs: List[Outcome], static_cls: dict, flags: Tuple[str, ...] = (), limit: int = 16) -> List[Outcome]:
    """Class-hierarchy expansion of virtual calls (double dispatch).  An outcome whose value calls `recv.m(args)` on a
    receiver of known static class C (given in `static_cls`: term -> class name), where m is defined at several places
    of C's hierarchy, is split into one outcome per implementation: the implementation is evaluated with self bound to
    the receiver and the call replaced by what it returns.  Each case carries the guard isinstance(recv, <classes that
    resolve to this implementation>) and, for every requested constant flag on which those classes agree, the guard
    (recv.flag, value), so that a rule keyed by such flags reads the class split the way it reads a test of the flag."""
    from .terms import ClassRef, New, subst
    res: List[Outcome] = []
    for o in outs:
        if o.kind != 'return' or o.value is None:
            res.append(o)
            continue
        site = None
        for x in walk(o.value):
            if isinstance(x, Call) and isinstance(x.func, BoundMethod) and x.func.recv in static_cls and not x.kwargs:
                site = x
                break
        if site is None:
            res.append(o)
            continue
        recv, name = site.func.recv, site.func.name
        base = ctx.model.classes.get(static_cls[recv])
        if base is None:
            res.append(o)
            continue
        groups = {}
        for c in ctx.model.subclasses(base):
            fi = c.resolve(name)
            if fi is None or fi.kind != 'method':
                continue
            groups.setdefault(id(fi), (fi, []))[1].append(c)
        if not groups or len(groups) > limit:
            res.append(o)
            continue
        for fi, classes in groups.values():
            params = fi.params()[1:]
            if len(params) < len(site.args):
                res.append(o)
                continue
            args = {fi.params()[0]: recv}
            args.update(dict(zip(params, site.args)))
            # an implementation only a base class defines also serves subclasses that override it: those are other cases
            typed = classes[0] if len(classes) == 1 else fi.cls
            extra: List[Guard] = [(Call(Ext('isinstance'), (recv, TupleT(tuple(ClassRef(c.name) for c in classes)))), True)]
            for flag in flags:
                vals = set()
                for c in classes:
                    pfi = c.resolve(flag)
                    po = ev.run(pfi, {'self': Sym('self', c.name)}, self_cls=c) if pfi is not None else []
                    vals.add(po[0].value if len(po) == 1 and po[0].kind == 'return' and isinstance(po[0].value, Const) else None)
                if len(vals) == 1 and None not in vals:
                    extra.append((Attr(recv, flag), bool(next(iter(vals)).value)))
            impl_outs = ev.run(fi, args, self_cls=typed)
            if all(o2.kind == 'raise' and 'NotImplementedError' in repr(o2.value) and not o2.guards for o2 in impl_outs) and not any(ctx.model.is_leaf(c) for c in classes):
                continue    # the abstract-method idiom of a base class that is never instantiated itself
            for o2 in impl_outs:
                if o2.kind != 'return':
                    res.append(Outcome(o2.kind, o2.value, o.guards + tuple(extra) + o2.guards, o.effects + o2.effects, o.asserts + o2.asserts, o2.lineno, o.env, o.trace))
                    continue
                res.append(Outcome('return', subst(o.value, {site: o2.value}), o.guards + tuple(extra) + o2.guards, o.effects + o2.effects, o.asserts + o2.asserts, o.lineno, o.env, o.trace))
    return res


def devirtualise_props(ctx, ev, outs: List[Outcome], flags: Tuple[str, ...] = (), limit: int = 8) -> List[Outcome]:
    """The property counterpart of devirtualise(): a path guarded by `recv.p` where p is a property implemented at several
    places below the class that an assertion of the path gives recv (assert isinstance(recv, C)) is split into one path per
    implementation; the guard is replaced by that implementation's own conditions and result, the class split is stated
    as isinstance(recv, ...) and, for the requested constant flags on which the classes of a case agree, as a test of
    the flag."""
    from .terms import ClassRef, norm_guards
    res: List[Outcome] = []
    for o in outs:
        asserted = {}
        for a in o.asserts:
            for x in walk(a):
                if isinstance(x, Call) and isinstance(x.func, Ext) and x.func.name == 'isinstance' and len(x.args) == 2 and isinstance(x.args[1], ClassRef):
                    asserted.setdefault(x.args[0], x.args[1].name)
        site = None
        gs0 = tuple(norm_guards(o.guards))
        for i, (g, pol) in enumerate(gs0):
            if isinstance(g, Attr) and g.base in asserted:
                base = ctx.model.classes.get(asserted[g.base])
                if base is None:
                    continue
                impls = {}
                for c in ctx.model.subclasses(base):
                    f = c.resolve(g.name)
                    if f is not None and f.kind == 'property':
                        impls.setdefault(id(f), (f, []))[1].append(c)
                if 2 <= len(impls) <= limit:
                    site = (i, g, pol, impls)
                    break
        if site is None:
            res.append(o)
            continue
        i, g, pol, impls = site
        recv = g.base
        for f, classes in impls.values():
            typed = classes[0] if len(classes) == 1 else f.cls
            extra: List[Guard] = [(Call(Ext('isinstance'), (recv, TupleT(tuple(ClassRef(c.name) for c in classes)))), True)]
            for flag in flags:
                vals = set()
                for c in classes:
                    pfi = c.resolve(flag)
                    po = ev.run(pfi, {'self': Sym('self', c.name)}, self_cls=c) if pfi is not None else []
                    vals.add(po[0].value if len(po) == 1 and po[0].kind == 'return' and isinstance(po[0].value, Const) else None)
                if len(vals) == 1 and None not in vals:
                    extra.append((Attr(recv, flag), bool(next(iter(vals)).value)))
            for o2 in ev.run(f, {f.params()[0]: recv}, self_cls=typed):
                if o2.kind != 'return':
                    continue
                if isinstance(o2.value, Const):
                    if bool(o2.value.value) != pol:
                        continue
                    tail: Tuple[Guard, ...] = ()
                else:
                    tail = ((o2.value, pol),)
                res.append(Outcome(o.kind, o.value, gs0[:i] + tuple(extra) + o2.guards + tail + gs0[i + 1:], o.effects, o.asserts + o2.asserts, o.lineno, o.env, o.trace))
    return res


# ---------------------------------------------------------------- closed string terms
_STR_METHODS = ('startswith', 'endswith', 'strip', 'lstrip', 'rstrip', 'lower', 'upper', 'find', 'index', 'count', 'replace', 'removeprefix', 'removesuffix', 'isalpha', 'isdigit')


def fold_closed(t: Term) -> Term:
    """Value of a closed term over string / int / bool constants (string methods, indexing and slicing, len, comparisons,
    in, not/and/or, conditional): the Python value as a Const, or the term itself where something is not closed."""
    from .terms import Ite, SliceT, Sub
    if isinstance(t, Const):
        return t
    try:
        if isinstance(t, Call):
            name, recv = call_name(t), call_recv(t)
            args = [fold_closed(a) for a in t.args]
            if recv is not None and name in _STR_METHODS and not t.kwargs:
                rv = fold_closed(recv)
                if isinstance(rv, Const) and isinstance(rv.value, str) and all(isinstance(a, Const) for a in args):
                    return Const(getattr(rv.value, name)(*[a.value for a in args]))
            if isinstance(t.func, Ext) and t.func.name in ('len', 'bool', 'str', 'int') and len(args) == 1 and isinstance(args[0], Const) and not t.kwargs:
                return Const({'len': len, 'bool': bool, 'str': str, 'int': int}[t.func.name](args[0].value))
            return t
        if isinstance(t, Sub):
            b = fold_closed(t.base)
            if isinstance(b, Const) and isinstance(b.value, (str, tuple)):
                if isinstance(t.index, SliceT):
                    parts = [None if x is None else fold_closed(x) for x in (t.index.lo, t.index.hi, t.index.step)]
                    if all(x is None or (isinstance(x, Const) and isinstance(x.value, int)) for x in parts):
                        return Const(b.value[slice(*[None if x is None else x.value for x in parts])])
                else:
                    i = fold_closed(t.index)
                    if isinstance(i, Const) and isinstance(i.value, int):
                        return Const(b.value[i.value])
            return t
        if isinstance(t, Op):
            args = [fold_closed(a) for a in t.args]
            if not all(isinstance(a, Const) for a in args):
                return t
            vs = [a.value for a in args]
            if t.op == 'not' and len(vs) == 1:
                return Const(not vs[0])
            if t.op in ('-', 'neg', 'usub') and len(vs) == 1:
                return Const(-vs[0])
            if t.op == 'and':
                return Const(all(vs))
            if t.op == 'or':
                return Const(any(vs))
            if len(vs) == 2:
                import operator as _o
                table = {'==': _o.eq, '!=': _o.ne, '<': _o.lt, '<=': _o.le, '>': _o.gt, '>=': _o.ge, 'is': _o.is_, 'is not': _o.is_not,
                         'in': lambda a, b: a in b, 'not in': lambda a, b: a not in b, '+': _o.add}
                if t.op in table:
                    return Const(table[t.op](vs[0], vs[1]))
            return t
        if isinstance(t, Ite):
            c = fold_closed(t.test)
            if isinstance(c, Const):
                return fold_closed(t.a if c.value else t.b)
    except Exception:
        return t
    return t

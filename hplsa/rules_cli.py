"""E11 CLI rules C1-C3 (C19): exit status, -p dispatch, JSON serialisation."""
from __future__ import annotations

import ast
from typing import Dict, List, Optional, Set, Tuple

from .ctx import Ctx
from .model import AnalysisError, ClassInfo, FunctionInfo
from .report import RuleResult
from .terms import (alternatives, expand_outcomes, Attr, Call, ClassRef, Const, EnumMember, Evaluator, Ext, FuncRef, Op, Outcome, Sub, Sym, Term,
                    default_inline, flat_guards, guards_repr, norm_guards, unglobal, walk)
from .util import call_name


def _cli_eval(ctx: Ctx) -> Evaluator:
    def pol(fi: FunctionInfo, depth: int) -> bool:
        if fi.module.name == 'hpl.cli':
            # helpers of the command line are looked through, also when they run over a table (`for flags, options in ARGUMENTS`)
            return default_inline(fi, depth) or (fi.cls is None and fi.name != 'main' and depth <= 3
                                                 and not any(isinstance(x, (ast.While, ast.With, ast.Try, ast.Yield, ast.YieldFrom)) for x in ast.walk(fi.node))
                                                 and sum(1 for x in ast.walk(fi.node) if isinstance(x, ast.stmt)) <= 30)
        # a serialisation helper kept next to the AST classes (it is the one that calls attrs.asdict)
        return fi.cls is None and default_inline(fi, depth) and any(isinstance(n, ast.Call) and ast.unparse(n.func).split('.')[-1] == 'asdict' for n in ast.walk(fi.node))
    return Evaluator(ctx.model, inline=pol)


def _main_outcomes(ctx: Ctx) -> Tuple[FunctionInfo, List[Outcome]]:
    def build():
        fi = ctx.model.func('hpl.cli', 'main', 'C1')
        return fi, _cli_eval(ctx).run(fi, {'argv': Sym('argv')})
    return ctx.memo('cli.main', build)


def _is_except(g) -> Optional[Term]:
    t, pol = g
    if isinstance(t, Op) and t.op == 'except' and pol:
        return t.args[0]
    return None


def _calls(t: Term, pred) -> List[Call]:
    return [x for x in walk(t) if isinstance(x, Call) and pred(x)]


def _is_print(c: Call) -> bool:
    return isinstance(c.func, Ext) and c.func.name in ('print', 'traceback.print_exc', 'sys.stderr.write', 'sys.stdout.write', 'logging.error')


def _parse_fn(c: Call) -> Optional[str]:
    if isinstance(c.func, FuncRef) and c.func.key.startswith('hpl.parser:parse_'):
        return c.func.key.split(':')[1]
    return None


def C1(ctx: Ctx) -> RuleResult:
    r = RuleResult('C1', 'hpl.cli.main: returns 0 only by completing the try body that contains the parse; every handler prints and returns non-zero; Exception is handled')
    fi, outs = _main_outcomes(ctx)
    handled: Set[str] = set()
    n_ok = 0
    for o in outs:
        exc = [e for e in map(_is_except, o.guards) if e is not None]
        if exc:
            names = []
            flat_exc = []
            for e in exc:
                flat_exc.extend(e.items if type(e).__name__ == 'TupleT' else [e])   # except (A, B): both classes
            for e in flat_exc:
                if isinstance(e, Ext):
                    names.append(e.name)
                elif isinstance(e, ClassRef):
                    names.append(e.name)
                else:
                    names.append(repr(e))
            handled.update(names)
            key = f'main:except {"+".join(names)}'
            prints = [e for e in o.effects if isinstance(e, Call) and _is_print(e)]
            if o.kind == 'return' and isinstance(o.value, Const) and isinstance(o.value.value, int) and not isinstance(o.value.value, bool) and o.value.value != 0:
                if o.value.value != 1:
                    r.fail(key + ':status', f'handler returns {o.value.value}: the documented exit status of a failed parse is 1', fi.where, 1, o.value.value)
                if prints:
                    r.ok(f'{key} -> prints, returns {o.value.value}')
                else:
                    r.fail(key, 'handler returns non-zero without printing a diagnostic', fi.where)
            elif o.kind == 'raise':
                r.ok(f'{key} -> re-raises {o.value!r} (non-zero exit by traceback)')
            else:
                r.fail(key, f'handler path ends with {o.kind} {o.value!r}: exit status would be 0/None although parsing failed', fi.where, 'return <non-zero int>', repr(o.value))
            # no JSON on failure paths
            for e in o.effects:
                if _calls(e, lambda c: isinstance(c.func, Ext) and c.func.name == 'json.dumps'):
                    r.fail(key + ':json', 'handler path prints a JSON document', fi.where)
        else:
            key = f'main:[{guards_repr(norm_guards(o.guards))[-90:]}]'
            if o.kind in ('return', 'fall'):
                v = o.value
                if o.kind == 'return' and v == Const(0):
                    # must have parsed on this path
                    parsed = [c for v_ in (o.env or {}).values() for c in _calls(v_, lambda c: _parse_fn(c) is not None)]
                    if parsed:
                        n_ok += 1
                        r.ok(f'success path returns 0 after {[_parse_fn(c) for c in parsed][0]}')
                    else:
                        r.fail('main:return0-without-parse', 'a path returns 0 without the result of a parse_* call', fi.where)
                else:
                    r.fail('main:success-exit', f'non-exception path ends with {o.kind} {v!r} instead of return 0', fi.where, 0, repr(v))
            else:
                r.ok(f'explicit raise {o.value!r} (non-zero exit)')
    if not ({'Exception', 'BaseException'} & handled):
        r.fail('main:handlers', f'no handler for Exception: a sanity/type error would escape as a traceback; handled={sorted(handled)}', fi.where, 'Exception', sorted(handled))
    # lexical: every parse_* call in main sits in the body of a try with a broad handler
    n_calls = 0
    mod = fi.module
    reach = [fi]
    sites: Dict[str, List] = {}
    todo = [fi]
    while todo:
        f0 = todo.pop()
        for node in ast.walk(f0.node):
            if isinstance(node, ast.Call) and isinstance(node.func, ast.Name) and node.func.id in mod.functions and node.func.id != f0.name:
                g = mod.functions[node.func.id]
                sites.setdefault(g.name, []).append((f0, node))
                if all(g is not x for x in reach):
                    reach.append(g)
                    todo.append(g)

    def guarded(f0, node, depth=0) -> bool:
        """the call is inside a try with an Exception handler, here or at every place this helper is called from"""
        if _inside_broad_try(f0.node, node, f0.module):
            return True
        if f0 is fi or depth > 3:
            return False
        callers = sites.get(f0.name, [])
        return bool(callers) and all(guarded(f1, site, depth + 1) for f1, site in callers)
    for f0 in reach:
        for node in ast.walk(f0.node):
            if isinstance(node, ast.Call) and isinstance(node.func, ast.Name) and node.func.id.startswith('parse_') and node.func.id != 'parse_arguments':
                n_calls += 1
                if not guarded(f0, node):
                    r.fail(f'main:{node.func.id}:unguarded', f'{node.func.id}() is called outside a try with an Exception handler', f'{f0.module.relpath}:{node.lineno}')
                else:
                    r.ok(f'{node.func.id}() inside try/except Exception' + ('' if f0 is fi else f' (via {f0.name})'))
    # python -m hpl: the status must reach the process exit code
    mm = ctx.model.modules.get('hpl.__main__')
    if mm is not None:
        calls_main = [n_ for n_ in ast.walk(mm.tree) if isinstance(n_, ast.Call) and isinstance(n_.func, ast.Name) and n_.func.id == 'main']
        for cm in calls_main:
            wrapped = any(isinstance(x, ast.Call) and ast.unparse(x.func) in ('sys.exit', 'exit', 'SystemExit', 'raise SystemExit') and any(cm is y for a in x.args for y in ast.walk(a)) for x in ast.walk(mm.tree)) or \
                any(isinstance(x, ast.Raise) and x.exc is not None and any(cm is y for y in ast.walk(x.exc)) for x in ast.walk(mm.tree))
            if wrapped:
                r.ok('__main__: sys.exit(main(...))')
            else:
                r.fail('__main__:exit-status', 'python -m hpl calls main() without passing its return value to sys.exit(): the process exits 0 whatever happened', f'{mm.relpath}:{cm.lineno}')
    r.floor('success paths', n_ok, 2)
    r.floor('parse calls', n_calls, 1)
    return r


def _broad_exit_classes(fn: ast.AST, module) -> Set[str]:
    """classes of the module whose __exit__ swallows Exception / BaseException (`isinstance(<its error argument>, Exception)` on
    a way to `return True`): a `with` over an instance of one is a try with a broad handler"""
    out: Set[str] = set()
    for cname, ci in getattr(module, 'classes', {}).items():
        ex = ci.methods.get('__exit__')
        if ex is None or len(ex.params()) != 4:
            continue
        err = ex.params()[2]
        tests = [n for n in ast.walk(ex.node) if isinstance(n, ast.Call) and isinstance(n.func, ast.Name) and n.func.id == 'isinstance' and len(n.args) == 2
                 and isinstance(n.args[0], ast.Name) and n.args[0].id == err and any(isinstance(x, ast.Name) and x.id in ('Exception', 'BaseException') for x in ast.walk(n.args[1]))]
        swallows = any(isinstance(n, ast.Return) and isinstance(n.value, ast.Constant) and n.value.value is True for n in ast.walk(ex.node))
        if tests and swallows:
            out.add(cname)
    return out


def _inside_broad_try(fn: ast.AST, target: ast.AST, module=None) -> bool:
    if module is not None:
        broad = _broad_exit_classes(fn, module)
        if broad:
            # names bound to an instance of such a class in this function
            inst = {t.id for n in ast.walk(fn) if isinstance(n, ast.Assign) and isinstance(n.value, ast.Call) and isinstance(n.value.func, ast.Name) and n.value.func.id in broad
                    for t in n.targets if isinstance(t, ast.Name)}
            for node in ast.walk(fn):
                if isinstance(node, ast.With) and any(target is x for b in node.body for x in ast.walk(b)):
                    for it in node.items:
                        ce = it.context_expr
                        if (isinstance(ce, ast.Name) and ce.id in inst) or (isinstance(ce, ast.Call) and isinstance(ce.func, ast.Name) and ce.func.id in broad):
                            return True
    for node in ast.walk(fn):
        if isinstance(node, ast.Try):
            inside = any(target is x for b in node.body for x in ast.walk(b))
            if inside:
                for h in node.handlers:
                    if h.type is None:
                        return True
                    names = [ast.unparse(e) for e in (h.type.elts if isinstance(h.type, ast.Tuple) else [h.type])]
                    if 'Exception' in names or 'BaseException' in names:
                        return True
    return False


def C2(ctx: Ctx) -> RuleResult:
    r = RuleResult('C2', '-p selects parse_property on the argument text; otherwise the file is read and parse_specification is used')
    fi, outs = _main_outcomes(ctx)
    # the flag: an add_argument call with '-p' and dest D, action store_true
    dest = None
    argname = None
    for o in outs:
        for e in o.effects:
            if isinstance(e, Call) and isinstance(e.func, Attr) and e.func.name == 'add_argument':
                consts = [a.value for a in e.args if isinstance(a, Const)]
                if '-p' in consts:
                    d = e.kw('dest')
                    act = e.kw('action')
                    if isinstance(d, Const):
                        dest = d.value
                    elif '--property' in consts:
                        dest = 'property'
                    if act != Const('store_true'):
                        r.fail('parse_arguments:-p', f'-p is not a store_true flag (action={act!r})', fi.where)
                elif consts and not str(consts[0]).startswith('-'):
                    argname = consts[0]
        break
    if dest is None or argname is None:
        raise AnalysisError('C2', 'could not find the -p flag / positional argument in parse_arguments (anchor vanished)')
    seen = {True: 0, False: 0}
    for o in outs:
        if any(_is_except(g) is not None for g in o.guards) or o.kind != 'return':
            continue
        res = next((v_ for v_ in (o.env or {}).values() if all(isinstance(x, Call) and _parse_fn(x) is not None for _, x in alternatives(v_))), None)
        if res is None:
            res = next((v_ for v_ in (o.env or {}).values() if _calls(v_, lambda c: _parse_fn(c) is not None) and not _calls(v_, lambda c: isinstance(c.func, Ext) and c.func.name in ('json.dumps',) or (isinstance(c.func, Ext) and c.func.name.endswith('asdict')))), None)
        if res is None:
            continue
        res_all = res
        for g2, res in alternatives(res_all):
            pol = None
            for t, p in norm_guards(tuple(o.guards) + tuple(g2)):
                if isinstance(t, Sub) and t.index == Const(dest):
                    pol = p
                elif isinstance(t, Call) and isinstance(t.func, Attr) and t.func.name == 'get' and t.args and t.args[0] == Const(dest):
                    pol = p
            if pol is None:
                r.fail('main:dispatch', f'success path not guarded by the -p flag ({dest}): result = {str(res)[:120]}', fi.where)
                continue
            if not isinstance(res, Call) or _parse_fn(res) is None:
                r.fail(f'main:-p={pol}', f'result is not directly the value of a parse_* call: {str(res)[:160]}', fi.where, 'parse_property(arg)' if pol else 'parse_specification(text)', str(res)[:200])
                continue
            fn = _parse_fn(res)
            want = 'parse_property' if pol else 'parse_specification'
            arg = res.args[0] if res.args else None
            arg_is_raw = isinstance(arg, Sub) and arg.index == Const(argname)
            reads_file = arg is not None and any(isinstance(x, Attr) and x.name == 'read_text' for x in walk(arg)) and any(isinstance(x, Sub) and x.index == Const(argname) for x in walk(arg))
            if fn != want:
                r.fail(f'main:-p={pol}', f'with -p {"set" if pol else "unset"} the tool calls {fn} instead of {want}', fi.where, want, fn)
            elif pol and not arg_is_raw:
                r.fail('main:-p=True:arg', f'parse_property is not applied to the raw argument: {str(arg)[:120]}', fi.where)
            elif not pol and not reads_file:
                r.fail('main:-p=False:arg', f'parse_specification is not applied to the text read from the file named by the argument: {str(arg)[:120]}', fi.where)
            else:
                seen[pol] += 1
                r.ok(f'-p={pol}: {fn}({"arg" if pol else "read_text(Path(arg))"})')
    if not seen[True] or not seen[False]:
        r.fail('main:dispatch-coverage', f'missing a success path for -p set/unset: {seen}', fi.where)
    return r


_JSON_NATIVE = {'str', 'int', 'float', 'bool', 'None', 'Any', 'object'}


def C3(ctx: Ctx) -> RuleResult:
    r = RuleResult('C3', 'JSON = json.dumps(asdict(result, value_serializer=S)); S maps Enum -> .value, non-finite float -> None; reachable field types are JSON-native after that')
    fi, outs = _main_outcomes(ctx)
    ser: Optional[FunctionInfo] = None
    ser_closure = None
    n_json = 0
    for o in outs:
        if any(_is_except(g) is not None for g in o.guards):
            continue
        for e in o.effects:
            for d in _calls(e, lambda c: isinstance(c.func, Ext) and c.func.name == 'json.dumps'):
                n_json += 1
                if not (isinstance(e, Call) and isinstance(e.func, Ext) and e.func.name == 'print'):
                    r.fail('main:json-print', 'json.dumps result is not what is printed', fi.where)
                if e.kw('file') is not None:
                    r.fail('main:json-stdout', f'JSON is printed to {e.kw("file")!r}, not standard output', fi.where)
                data = d.args[0] if d.args else None
                # the document is printed exactly on the paths where the output format option equals the JSON format name
                want_json = None
                for g_, pol_ in flat_guards(o.guards):
                    if isinstance(g_, Op) and g_.op in ('==', '!=') and len(g_.args) == 2 and any(isinstance(x_, Call) and call_name(x_) == 'get' and x_.args[:1] == (Const('output'),) for a_ in g_.args for x_ in walk(a_)) \
                            and any(isinstance(unglobal(a_), Const) and unglobal(a_).value == 'json' for a_ in g_.args):
                        want_json = (g_.op == '==') == pol_
                if want_json is not True:
                    r.fail('main:json-option', 'the JSON document is printed on a path that has not established that the requested output format is "json"' + (' (it is printed when another format, or none, was requested)' if want_json is False else ''), fi.where)
                ad = data if isinstance(data, Call) and isinstance(data.func, Ext) and data.func.name.endswith('asdict') else None
                if ad is None:
                    r.fail('main:json-asdict', f'json.dumps is not applied to attrs.asdict(result, ...): {str(data)[:100]}', fi.where)
                    continue
                vs = ad.kw('value_serializer')
                vs = unglobal(vs) if vs is not None else vs
                if type(vs).__name__ == 'Lam' and getattr(vs, 'closure', None) is not None:
                    ser_closure = vs     # a hook built by a factory (closure over its parameters)
                    continue_ok = True
                elif not isinstance(vs, FuncRef):
                    r.fail('main:json-serializer', 'asdict is called without the value_serializer hook', fi.where)
                    continue
                else:
                    ser = ctx.ev._fn_by_key.get(vs.key)
                if ad.kw('recurse') == Const(False):
                    r.fail('main:json-recurse', 'asdict(recurse=False) does not mirror the AST', fi.where)
                if ad.kw('filter') is not None:
                    r.fail('main:json-filter', 'asdict(filter=...) drops fields: output no longer mirrors the AST field for field', fi.where)
                an = d.kw('allow_nan')
                if d.kw('ensure_ascii') == Const(False):
                    r.fail('main:json-ascii', 'json.dumps(ensure_ascii=False): the document contains raw non-ASCII characters and print() raises UnicodeEncodeError on a stdout that cannot encode them; a parsing input then exits 1 without JSON', fi.where)
                src = ad.args[0] if ad.args else None
                leaves = [leaf for _, leaf in alternatives(src)] if src is not None else []
                if not leaves or not all(isinstance(x, Call) and _parse_fn(x) is not None for x in leaves):
                    r.fail('main:json-source', f'asdict is not applied to the parse result: {str(src)[:100]}', fi.where)
                else:
                    r.ok(f'print(json.dumps(asdict({"|".join(sorted({_parse_fn(x) for x in leaves}))}(..), value_serializer={ser.name if ser else "?"})))')
    r.floor('json paths', n_json, 1)
    value = Sym('value')
    if ser is None and ser_closure is not None:
        # apply the closure to symbolic arguments: its result, split into paths
        from .terms import _State
        node = ser_closure.closure[0]

        class _Ser:
            name = node.name
            where = f'{ser_closure.closure[2].relpath}:{node.lineno}'
        ser = _Ser()
        if len(ser_closure.params) != 3:
            r.fail(f'{ser.name}:signature', 'value_serializer must take (instance, attribute, value)', ser.where)
            return r
        st_ = _State()
        res_ = ctx.ev.apply(ser_closure, (Sym('_ast'), Sym('_field'), value), (), st_, 0)
        souts = [Outcome('return', leaf, tuple(g), (), (), node.lineno) for g, leaf in alternatives(res_)]
    else:
        if ser is None:
            raise AnalysisError('C3', 'serializer hook not found')
        # the serializer itself
        params = ser.params()
        if len(params) != 3:
            r.fail(f'{ser.name}:signature', 'value_serializer must take (instance, attribute, value)', ser.where)
            return r
        souts = expand_outcomes(ctx.ev.run(ser, {params[2]: value}))
    # a hook that only hands the value to one conversion function (a dispatcher by class, say): that function's paths
    followed: List[Outcome] = []
    for o in souts:
        v_ = o.value
        g_ = ctx.ev.callee(v_.func) if o.kind == 'return' and isinstance(v_, Call) and isinstance(v_.func, FuncRef) and v_.args == (value,) and not v_.kwargs else None
        if g_ is not None and len(g_.params()) == 1:
            for o2 in expand_outcomes(ctx.ev.run(g_, {g_.params()[0]: value})):
                followed.append(Outcome(o2.kind, o2.value, tuple(o.guards) + tuple(o2.guards), tuple(o.effects) + tuple(o2.effects), tuple(o.asserts) + tuple(o2.asserts), o2.lineno, o2.env, o2.trace))
        else:
            followed.append(o)
    souts = followed
    enum_ok = nonfinite_ok = ident_ok = False
    for o in souts:
        gs = norm_guards(o.guards)
        is_enum = any(pol and _isinstance_of(t, value, {'enum.Enum', 'Enum'}) for t, pol in gs)
        desc = f'[{guards_repr(gs)}] {o.kind} {o.value!r}'
        if o.kind != 'return':
            r.fail(f'{ser.name}:path', f'serializer path does not return: {desc}', ser.where)
            continue
        if is_enum:
            if o.value == Attr(value, 'value'):
                enum_ok = True
                r.ok(desc)
            else:
                r.fail(f'{ser.name}:enum', f'Enum values are mapped to {o.value!r}, not .value', ser.where)
            continue
        if o.value == Const(None):
            # needs float guard + non-finite test
            pos = [t for t, pol in gs if pol]
            txt = ' '.join(repr(t) for t in pos)
            float_guard = any(_mentions_isinstance(t, value, {'float'}) for t in pos)
            nf = ('isinf' in txt and 'isnan' in txt) or ('isfinite' in txt)
            if float_guard and nf:
                nonfinite_ok = True
                r.ok(desc)
            elif nf and not float_guard:
                r.fail(f'{ser.name}:nonfinite-guard', f'math.isinf/isnan/isfinite applied to a value not proven to be a float (raises on other types / huge ints): {desc}', ser.where)
            else:
                r.fail(f'{ser.name}:none', f'returns None on a path that is not the non-finite-float case: {desc}', ser.where)
            continue
        if o.value == value:
            ident_ok = True
            enum_tested = any((not pol) and _isinstance_of(t, value, {'enum.Enum', 'Enum'}) for t, pol in gs)
            if not enum_tested:
                r.fail(f'{ser.name}:identity-guard', f'a value is passed through unchanged on a path that did not rule out Enum members: {desc} (enums nested in tuples / definitions would reach json.dumps)', ser.where)
            # math.* must not be evaluated on non-floats on the way here
            float_known = False   # an earlier guard of the path already established isinstance(value, float)
            for t, pol in gs:
                for c in _calls(t, lambda c: isinstance(c.func, Ext) and c.func.name.startswith('math.')):
                    if not float_known and not _guarded_by_float(t, c, value):
                        r.fail(f'{ser.name}:nonfinite-guard', f'{c.func.name} is applied to a value not proven to be a float (raises OverflowError/TypeError for other values): {desc}', ser.where)
                if pol and _isinstance_of(t, value, {'float'}):
                    float_known = True
            r.ok(desc)
            continue
        r.fail(f'{ser.name}:other', f'unexpected mapping {desc}', ser.where)
    # the mapping as a truth table over: is a float / is infinite / is NaN (Enum members aside)
    def tv(t: Term, m_) -> Optional[bool]:
        if isinstance(t, Op) and t.op == 'not' and len(t.args) == 1:
            v_ = tv(t.args[0], m_)
            return None if v_ is None else not v_
        if isinstance(t, Op) and t.op in ('and', 'or'):
            vs_ = [tv(a_, m_) for a_ in t.args]
            if t.op == 'and':
                return False if any(v_ is False for v_ in vs_) else (None if any(v_ is None for v_ in vs_) else True)
            return True if any(v_ is True for v_ in vs_) else (None if any(v_ is None for v_ in vs_) else False)
        if _isinstance_of(t, value, {'enum.Enum', 'Enum'}):
            return False
        if _isinstance_of(t, value, {'float'}):
            return m_['F']
        if isinstance(t, Call) and isinstance(t.func, Ext) and t.args == (value,):
            n_ = t.func.name.split('.')[-1]
            if n_ == 'isinf':
                return m_['I']
            if n_ == 'isnan':
                return m_['N']
            if n_ == 'isfinite':
                return not (m_['I'] or m_['N'])
        return None
    for F_, I_, N_ in ((False, False, False), (True, False, False), (True, True, False), (True, False, True)):
        m_ = {'F': F_, 'I': I_, 'N': N_}
        for o in souts:
            gv = [tv(t, m_) for t, _ in o.guards]
            if any(v_ is None for v_ in gv) or any(v_ != pol for v_, (_, pol) in zip(gv, o.guards)):
                continue
            want_none = F_ and (I_ or N_)
            got_none = o.kind == 'return' and o.value == Const(None)
            if want_none != got_none:
                what = 'an infinite float' if I_ else 'NaN' if N_ else 'a finite float' if F_ else 'a value that is not a float'
                r.fail(f'{ser.name}:nonfinite-table', f'{what} is mapped to {str(o.value)[:30]}: the JSON document must render infinite and NaN numbers (and only those) as null', ser.where)
            break
    if not enum_ok:
        r.fail(f'{ser.name}:enum-missing', 'no path maps Enum members to their value', ser.where)
    if not nonfinite_ok:
        r.fail(f'{ser.name}:nonfinite-missing', 'no path maps non-finite floats to None (json.dumps would print Infinity/NaN)', ser.where)
    if not ident_ok:
        r.fail(f'{ser.name}:identity-missing', 'no path passes ordinary values through', ser.where)
    # the option that requests the document exists: add_argument(..., '--output' / dest 'output', choices containing the format)
    pa = ctx.model.module('hpl.cli', 'C3')
    has_opt = False
    for f0 in pa.functions.values():
        for n_ in ast.walk(f0.node):
            if isinstance(n_, ast.Call) and isinstance(n_.func, ast.Attribute) and n_.func.attr == 'add_argument':
                names_ = [a_.value for a_ in n_.args if isinstance(a_, ast.Constant) and isinstance(a_.value, str)]
                dest = next((k.value.value for k in n_.keywords if k.arg == 'dest' and isinstance(k.value, ast.Constant)), None)
                if '--output' in names_ or dest == 'output':
                    has_opt = True    # (which values it admits is the format test's business: main:json-option)
    # the same from the evaluated calls (options registered from a table)
    for o_ in _main_outcomes(ctx)[1]:
        for e_ in o_.effects:
            if isinstance(e_, Call) and isinstance(e_.func, Attr) and e_.func.name == 'add_argument':
                if Const('--output') in e_.args or e_.kw('dest') == Const('output'):
                    has_opt = True
    if not has_opt:
        r.fail('parse_arguments:output-option', 'no command line option sets args["output"] (-o/--output with the choice "json"): the JSON document can never be requested', pa.relpath)
    # closure of field types
    _closure(ctx, r)
    _stored_enum_members(ctx, r)
    return r


def _stored_enum_members(ctx: Ctx, r: RuleResult):
    """no parser callback stores a member of an enum with non-int/str values in an AST field (its .value would bypass the
    non-finite mapping: the serializer's Enum branch returns .value as is)"""
    from .rules_flows import callback_outcomes
    from .rules_grammar import transformer_methods
    from .terms import New, Sub
    methods, _ = transformer_methods(ctx)
    for name in methods:
        if name.startswith('_'):
            continue
        try:
            fi, outs, _p = callback_outcomes(ctx, name)
        except AnalysisError:
            continue
        for o in outs:
            for t in ([o.value] if o.value is not None else []):
                for x in walk(t):
                    if isinstance(x, New):
                        for fname, v in x.fields:
                            enum = None
                            if isinstance(v, Sub) and isinstance(v.base, ClassRef):
                                enum = v.base.name
                            elif isinstance(v, EnumMember):
                                enum = v.cls
                            if enum is None:
                                continue
                            ci = ctx.model.classes.get(enum)
                            if ci is None or not ci.is_enum:
                                continue
                            vals = [ctx.ev.enum_value(EnumMember(enum, m), 0) for m in ci.enum_members]
                            nonjson = [v2 for v2 in vals if not ((isinstance(v2, Const) and isinstance(v2.value, (int, str)) and not isinstance(v2.value, float)) or (isinstance(v2, Call) and isinstance(v2.func, Ext) and v2.func.name.endswith('auto')))]
                            if nonjson:
                                r.fail(f'{name}:{x.cls}.{fname}:enum-member', f'callback {name} stores a member of {enum} (values such as {nonjson[0]!r}) in {x.cls}.{fname}: the serializer maps Enum -> .value without the non-finite check, so INF/NAN are printed as Infinity/NaN', fi.where)


def _isinstance_of(t: Term, v: Term, names: Set[str]) -> bool:
    if isinstance(t, Call) and isinstance(t.func, Ext) and t.func.name == 'isinstance' and len(t.args) == 2 and t.args[0] == v:
        c = t.args[1]
        if isinstance(c, Ext) and c.name in names:
            return True
    return False


def _mentions_isinstance(t: Term, v: Term, names: Set[str]) -> bool:
    return any(_isinstance_of(x, v, names) for x in walk(t))


def _guarded_by_float(t: Term, c: Call, v: Term) -> bool:
    """inside the `and` chain of `t`, an isinstance(v, float) conjunct precedes the math call"""
    for x in walk(t):
        if isinstance(x, Op) and x.op == 'and':
            seen = False
            for a in x.args:
                if _isinstance_of(a, v, {'float'}):
                    seen = True
                elif any(y is c or y == c for y in walk(a)):
                    if seen:
                        return True
    return False


def _closure(ctx: Ctx, r: RuleResult):
    m = ctx.model
    root = m.cls('HplSpecification', 'C3')
    todo: List[ClassInfo] = [root]
    seen: Set[str] = set()
    n_fields = 0
    while todo:
        c = todo.pop()
        if c.name in seen:
            continue
        seen.add(c.name)
        for sub in m.subclasses(c):
            if sub.name not in seen:
                todo.append(sub)
        if c.is_enum:
            for name, node in c.enum_members.items():
                v = ctx.ev.enum_value(EnumMember(c.name, name), 0)
                okv = (isinstance(v, Const) and isinstance(v.value, (int, str))) or (isinstance(v, Call) and isinstance(v.func, Ext) and v.func.name.endswith('auto')) or (isinstance(v, Op) and v.op in ('|', '&')) \
                    or (c.is_flag and ctx.ev.flag_bits(EnumMember(c.name, name)) is not None)     # a set of flags is an int
                if not okv:
                    r.fail(f'{c.name}.{name}:json', f'enum member value {v!r} is not an int/str: not JSON-native after the Enum -> .value mapping', c.where)
            r.ok(f'enum {c.name}: values int/str')
            continue
        for f in c.fields():
            n_fields += 1
            for name in _ann_names(f.annotation):
                if name in _JSON_NATIVE or name in ('Optional', 'Tuple', 'List', 'Dict', 'Mapping', 'Union', 'Final', 'Sequence', 'Iterable'):
                    continue
                res = m.resolve_name(f.cls.module, name)
                if res and res[0] == 'class':
                    todo.append(res[1])
                elif name in ('Set', 'FrozenSet', 'set', 'frozenset', 'bytes', 'complex', 'Callable'):
                    r.fail(f'{c.name}.{f.name}:json', f'field type {name} is not JSON-native (asdict keeps it; json.dumps raises TypeError)', f.where)
                else:
                    r.notes.append(f'{c.name}.{f.name}: type name {name} not classified')
    r.floor('fields in closure', n_fields, 40)
    r.counts['classes in closure'] = len(seen)


def _ann_names(ann) -> List[str]:
    if ann is None:
        return []
    out = []
    for n in ast.walk(ann):
        if isinstance(n, ast.Name):
            out.append(n.id)
        elif isinstance(n, ast.Constant) and isinstance(n.value, str):
            out.append(n.value)
        elif isinstance(n, ast.Constant) and n.value is None:
            out.append('None')
    return out


RULES = {'C1': C1, 'C2': C2, 'C3': C3}

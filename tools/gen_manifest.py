#!/venv/bin/python
"""Regenerate MANIFEST.json from hplsa/props.py (claimed) and tools/na.json (not applicable)."""
import json, os, sys
sys.path.insert(0, '/verif')
sys.dont_write_bytecode = True
from hplsa import props  # noqa
from hplsa.driver import PROPS
META = json.load(open('/verif/tools/manifest_meta.json'))
allp = [json.loads(l)['id'] for l in open('/verif/properties.jsonl')]
checks = []
for pid in allp:
    if pid not in PROPS:
        continue
    m = META['checks'].get(pid, {})
    rules = PROPS[pid]['quick']
    checks.append({
        'property_id': pid,
        'quick_cmd': f'./check {pid} --tier quick',
        'thorough_cmd': f'./check {pid} --tier thorough',
        'evidence_file': f'/verif/evidence/{pid}.json',
        'replay_cmd_template': f'./check {pid} --replay {{path}}',
        'engine': 'hplsa',
        'level_claimed': {
            'category': 'other',
            'text': m.get('level_text', PROPS[pid]['explanation']),
            'design_ref': f'DESIGN.md section 5 ({pid}), rules ' + ', '.join(rules),
        },
        'level_note': m.get('level_note', 'Trusted: CPython ast, attrs/enum/lark documented semantics; oracle tables under /verif/oracle.'),
        'technique': m.get('technique', 'static analysis: ' + ', '.join(rules)),
    })
na = [{'property_id': pid, 'reason': META['not_applicable'].get(pid, 'check not built yet in this session (static rules designed in DESIGN.md section 5); not claimed until its rules run clean')} for pid in allp if pid not in PROPS]
man = {
    'version': 1,
    'setup_cmd': '/venv/bin/python -c "import ast, lark; print(\'hplsa ready\')"',
    'hooks': {
        'guard': 'HPL_SPECS_VERIF',
        'enable': 'none needed: static analysis reads /repo sources; no instrumentation exists',
        'baseline_off_cmd': 'cd /repo && /venv/bin/python -m pytest -ra -q -p no:cacheprovider --timeout=900',
        'source_commits': [],
        'add_only': True,
    },
    'engines': [{
        'name': 'hplsa',
        'path': '/verif/hplsa',
        'serves_properties': [c['property_id'] for c in checks],
        'kind_free_text': 'repository-specific static analyser: ast program model, term extraction by reaching-definition substitution, lark-compiled grammar model, rule engines compared with oracle tables; never imports or runs hpl',
    }],
    'checks': checks,
    'notes': META.get('notes', ''),
    'not_applicable': na,
}
json.dump(man, open('/verif/MANIFEST.json', 'w'), indent=1)
print('claimed', [c['property_id'] for c in checks], 'na', len(na))

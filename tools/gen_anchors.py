#!/venv/bin/python
"""tools/gen_anchors.py: record, for every private function / method of the package as it is NOW, where it is called
from and at which position among the private callees of that caller.  The table (oracle/anchors.json) lets the model
recognise an anchor that has merely been renamed: same caller, same position, same number of private callees."""
import ast, json, sys
sys.path.insert(0, '/verif'); sys.dont_write_bytecode = True
from hplsa.model import Model, private_callees

m = Model('/repo')
rows = []
for mod in m.modules.values():
    scopes = [(None, mod.functions)] + [(c.name, c.methods) for c in mod.classes.values()]
    for cname, scope in scopes:
        for name, fi in scope.items():
            if not (name.startswith('_') and not name.startswith('__')):
                continue
            via = []
            # callers in the same module (functions) / in the class hierarchy (methods)
            if cname is None:
                callers = [(None, f) for f in mod.functions.values()] + [(c.name, f) for c in mod.classes.values() for f in c.methods.values()]
            else:
                ci = mod.classes[cname]
                callers = [(c.name, f) for c in m.classes.values() if (ci in c.mro() or c in ci.mro()) for f in c.methods.values()]
            for ccls, cf in callers:
                if cf is fi:
                    continue
                pc = private_callees(m, cf, ccls)
                if name in pc:
                    via.append({'module': cf.module.name, 'class': ccls, 'caller': cf.name, 'index': pc.index(name), 'of': len(pc)})
            # attached to a field: converter=<name>, validator=<name>(...), @<field>.validator
            for c in m.classes.values():
                for f in c.own_fields:
                    conv = f.kwargs.get('converter')
                    if cname is None and isinstance(conv, ast.Name) and conv.id == name and c.module is mod:
                        via.append({'kind': 'converter', 'cls': c.name, 'field': f.name})
                    val = f.kwargs.get('validator')
                    if cname is None and isinstance(val, ast.Call) and isinstance(val.func, ast.Name) and val.func.id == name and c.module is mod:
                        via.append({'kind': 'validator-call', 'cls': c.name, 'field': f.name})
                if cname == c.name:
                    for fld, vs in c.validators.items():
                        if name in vs:
                            via.append({'kind': 'validator', 'cls': c.name, 'field': fld, 'index': vs.index(name), 'of': len(vs)})
            rows.append({'module': mod.name, 'class': cname, 'name': name, 'via': via})
json.dump({'generated_from': 'current tree of /repo', 'anchors': rows}, open('/verif/oracle/anchors.json', 'w'), indent=1)
print(len(rows), 'private anchors,', sum(1 for r in rows if r['via']), 'with a caller')

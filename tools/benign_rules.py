#!/venv/bin/python
"""tools/benign_rules.py RULE... : apply every behaviour-preserving refactoring of /verif/benign to a scratch copy of
/repo and run only the named rules against it (fast regression for a new or changed rule; the full regression is
tools/benign_matrix.py). Prints the refactorings on which a named rule reports a finding or cannot analyse."""
import os, shutil, subprocess, sys, tempfile
from concurrent.futures import ThreadPoolExecutor
ROOT = '/verif/benign'
rules = sys.argv[1:]
ids = sorted(d for d in os.listdir(ROOT) if os.path.exists(f'{ROOT}/{d}/patch.diff'))


def one(bid):
    d = tempfile.mkdtemp(prefix='hplsa_benr_')
    try:
        dst = os.path.join(d, 'repo')
        shutil.copytree('/repo', dst, ignore=shutil.ignore_patterns('.git', '.hypothesis', '__pycache__', '*.egg-info'))
        r = subprocess.run(['git', 'apply', '--unsafe-paths', '--directory', dst, f'{ROOT}/{bid}/patch.diff'], capture_output=True, text=True, cwd='/')
        if r.returncode != 0:
            return bid, ['PATCH-ERROR ' + r.stderr[-200:]]
        rr = subprocess.run(['/venv/bin/python', '/verif/tools/runrules.py', '--repo', dst] + rules, capture_output=True, text=True)
        return bid, [l.strip()[:260] for l in (rr.stdout + rr.stderr).splitlines() if 'FAIL' in l or 'ANALYSIS-ERROR' in l or 'Traceback' in l or 'Error' in l]
    finally:
        shutil.rmtree(d, ignore_errors=True)


with ThreadPoolExecutor(16) as ex:
    out = list(ex.map(one, ids))
bad = 0
for bid, lines in out:
    if lines:
        bad += 1
        print(bid, 'ALARM')
        for l in lines[:4]:
            print('     ', l)
print('refactorings', len(out), 'rules', rules, 'with alarms', bad)
sys.exit(1 if bad else 0)

#!/venv/bin/python
"""tools/benign_matrix.py [ids...]: apply every behaviour-preserving refactoring of /verif/benign to a scratch copy of
/repo, run all 20 quick checks against it and list the ones that raise an alarm (there must be none)."""
import os, shutil, subprocess, sys, tempfile
from concurrent.futures import ThreadPoolExecutor
ROOT = '/verif/benign'
ids = sys.argv[1:] or sorted(d for d in os.listdir(ROOT) if os.path.exists(f'{ROOT}/{d}/patch.diff'))
props = [f'C{i:02d}' for i in range(1, 21)]

def one(bid):
    d = tempfile.mkdtemp(prefix='hplsa_ben_')
    try:
        dst = os.path.join(d, 'repo')
        shutil.copytree('/repo', dst, ignore=shutil.ignore_patterns('.git', '.hypothesis', '__pycache__', '*.egg-info'))
        r = subprocess.run(['git', 'apply', '--unsafe-paths', '--directory', dst, f'{ROOT}/{bid}/patch.diff'], capture_output=True, text=True, cwd='/')
        if r.returncode != 0:
            return bid, {'error': r.stderr[-200:]}
        alarms = {}
        for p in props:
            env = dict(os.environ, HPLSA_EVIDENCE_DIR=os.path.join(d, 'evidence'))
            rr = subprocess.run(['/verif/check', p, '--repo', dst], capture_output=True, text=True, env=env)
            if rr.returncode != 0:
                alarms[p] = [f'exit{rr.returncode}'] + [l.strip()[:230] for l in rr.stdout.splitlines() if (l.startswith('  ') and not l.startswith('      ')) or 'ANALYSIS-ERROR' in l][:3]
        return bid, alarms
    finally:
        shutil.rmtree(d, ignore_errors=True)

with ThreadPoolExecutor(8) as ex:
    out = list(ex.map(one, ids))
bad = 0
for bid, res in out:
    if 'error' in res:
        print(f'{bid} PATCH-ERROR {res["error"][:150]}'); bad += 1; continue
    if res:
        bad += 1
        print(f'{bid} ALARM')
        for p, lines in res.items():
            for l in lines[:3]:
                print(f'     {p}: {l}')
print('refactorings', len(out), 'with alarms or patch errors', bad)
sys.exit(1 if bad else 0)

#!/venv/bin/python
"""tools/seeded_matrix.py [ids...]: apply every seeded change to a scratch copy of /repo, run all 20 quick checks
against it, and print / store which checks (and rules) report a violation."""
import json, os, shutil, subprocess, sys, tempfile
from concurrent.futures import ThreadPoolExecutor
ROOT = '/verif/seeded'
ids = sys.argv[1:] or sorted(d for d in os.listdir(ROOT) if os.path.isdir(os.path.join(ROOT, d)))
props = [f'C{i:02d}' for i in range(1, 21)]

def one(sid):
    d = tempfile.mkdtemp(prefix='hplsa_seed_')
    try:
        dst = os.path.join(d, 'repo')
        shutil.copytree('/repo', dst, ignore=shutil.ignore_patterns('.git', '.hypothesis', '__pycache__', '*.egg-info'))
        r = subprocess.run(['git', 'apply', '--unsafe-paths', '--directory', dst, f'{ROOT}/{sid}/patch.diff'], capture_output=True, text=True, cwd='/')
        if r.returncode != 0:
            return sid, {'error': r.stderr[-300:]}
        res = {}
        for p in props:
            env = dict(os.environ, HPLSA_EVIDENCE_DIR=os.path.join(d, 'evidence'))
            rr = subprocess.run(['/verif/check', p, '--repo', dst], capture_output=True, text=True, env=env)
            rules = sorted({l.split()[0] for l in rr.stdout.splitlines() if l.startswith('  ') and not l.startswith('      ') and len(l.split()) > 1 and l.split()[0][0].isupper()})
            if rr.returncode == 1:
                res[p] = rules
            elif rr.returncode != 0:
                res[p] = ['EXIT%d' % rr.returncode] + [l for l in rr.stdout.splitlines() if 'ANALYSIS-ERROR' in l][:1]
        return sid, res
    finally:
        shutil.rmtree(d, ignore_errors=True)

with ThreadPoolExecutor(int(os.environ.get("HPLSA_JOBS", "8"))) as ex:
    out = dict(ex.map(one, ids))
full = json.load(open('/verif/seeded/MATRIX.json')) if sys.argv[1:] and os.path.exists('/verif/seeded/MATRIX.json') else {}
full.update(out)
json.dump(full, open('/verif/seeded/MATRIX.json', 'w'), indent=1, sort_keys=True)
for sid in ids:
    own = sid[:3] if sid.startswith('C') else json.load(open(f'/verif/seeded/{sid}/meta.json')).get('property', sid[:3])
    res = out[sid]
    tag = 'CAUGHT' if own in res and not str(res[own][0]).startswith('EXIT') else ('caught-by-other' if any(not str(v[0]).startswith('EXIT') for v in res.values()) else 'MISSED')
    print(f'{sid} {tag:16s} own={res.get(own)} others={ {k: v for k, v in res.items() if k != own} }')

#!/venv/bin/python
"""tools/mutants.py gen|tests|checks|report  (development aid, not part of any registered check)

Systematic single-point mutants of src/hpl (AST level): negated conditions, and<->or, comparison operators, swapped
call arguments / binary operands, boolean and small integer constants, dropped statements.  `gen` writes the list,
`tests` runs the repository's test suite on each (in per-worker scratch copies under /tmp/hplsa_mutants), `checks`
runs the 20 quick checks on the mutants that survive the tests, `report` prints the numbers and the survivors of both
for triage.  Everything lives outside /repo and /verif except the final summary file tools/mutants_report.json."""
import ast, copy, json, os, shutil, subprocess, sys, hashlib
from concurrent.futures import ProcessPoolExecutor

WORK = '/tmp/hplsa_mutants'
LIST = f'{WORK}/mutants.json'
SRC = '/repo/src/hpl'
FILES = ['parser.py', 'rewrite.py', 'types.py', 'cli.py', 'errors.py', 'ast/base.py', 'ast/events.py', 'ast/expressions.py', 'ast/predicates.py', 'ast/properties.py', 'ast/specs.py']
CMP = {ast.Lt: ast.LtE, ast.LtE: ast.Lt, ast.Gt: ast.GtE, ast.GtE: ast.Gt, ast.Eq: ast.NotEq, ast.NotEq: ast.Eq, ast.Is: ast.IsNot, ast.IsNot: ast.Is, ast.In: ast.NotIn, ast.NotIn: ast.In}


def mutants_of(rel):
    src = open(f'{SRC}/{rel}').read()
    tree = ast.parse(src)
    nodes = list(ast.walk(tree))
    out = []

    def emit(kind, node, mutate):
        t2 = copy.deepcopy(tree)
        n2 = list(ast.walk(t2))[nodes.index(node)]
        if mutate(n2) is False:
            return
        try:
            new = ast.unparse(ast.fix_missing_locations(t2))
        except Exception:
            return
        out.append({'file': rel, 'kind': kind, 'line': getattr(node, 'lineno', 0), 'what': ast.unparse(node)[:80], 'source': new})
    for node in nodes:
        if isinstance(node, (ast.If, ast.While, ast.IfExp)) and not isinstance(node.test, ast.Constant):
            emit('negate-condition', node, lambda n: setattr(n, 'test', ast.UnaryOp(ast.Not(), n.test)))
        if isinstance(node, ast.BoolOp):
            emit('and-or', node, lambda n: setattr(n, 'op', ast.Or() if isinstance(n.op, ast.And) else ast.And()))
        if isinstance(node, ast.Compare) and len(node.ops) == 1 and type(node.ops[0]) in CMP:
            emit('comparison', node, lambda n: setattr(n, 'ops', [CMP[type(n.ops[0])]()]))
        if isinstance(node, ast.Call) and len(node.args) == 2 and not node.keywords and not any(isinstance(a, ast.Starred) for a in node.args) \
                and ast.unparse(node.args[0]) != ast.unparse(node.args[1]) and not (isinstance(node.func, ast.Name) and node.func.id in ('isinstance', 'getattr', 'setattr', 'hasattr', 'zip', 'field')):
            emit('swap-args', node, lambda n: setattr(n, 'args', [n.args[1], n.args[0]]))
        if isinstance(node, ast.BinOp) and isinstance(node.op, (ast.Sub, ast.Div, ast.Pow, ast.FloorDiv, ast.Mod)):
            emit('swap-operands', node, lambda n: (setattr(n, 'left', n.right), setattr(n, 'right', node.left)) and None)
        if isinstance(node, ast.Constant) and isinstance(node.value, bool):
            emit('flip-bool', node, lambda n: setattr(n, 'value', not n.value))
        if isinstance(node, ast.Constant) and type(node.value) is int and node.value in (0, 1, 2):
            emit('int-const', node, lambda n: setattr(n, 'value', n.value + 1))
        if isinstance(node, (ast.FunctionDef,)):
            for i, st in enumerate(node.body):
                if isinstance(st, (ast.Expr, ast.Assign, ast.AugAssign, ast.Assert, ast.Raise)) and not (isinstance(st, ast.Expr) and isinstance(st.value, ast.Constant)) and len(node.body) > 1:
                    def drop(n, i=i):
                        del n.body[i]
                    emit('drop-statement', st, lambda n: False)  # placeholder replaced below
                    out.pop() if out and out[-1]['kind'] == 'drop-statement' and out[-1]['source'] is None else None
    # statement deletion (needs the parent): done separately
    for parent in nodes:
        for fld in ('body', 'orelse'):
            body = getattr(parent, fld, None)
            if not isinstance(body, list) or len(body) < 2 or not all(isinstance(x, ast.stmt) for x in body):
                continue
            for i, st in enumerate(body):
                if isinstance(st, (ast.Expr, ast.Assign, ast.AugAssign, ast.Assert, ast.Raise, ast.Return, ast.Continue, ast.Break)) and not (isinstance(st, ast.Expr) and isinstance(st.value, ast.Constant)):
                    t2 = copy.deepcopy(tree)
                    p2 = list(ast.walk(t2))[nodes.index(parent)]
                    del getattr(p2, fld)[i]
                    try:
                        new = ast.unparse(ast.fix_missing_locations(t2))
                        compile(new, rel, 'exec')
                    except Exception:
                        continue
                    out.append({'file': rel, 'kind': 'drop-statement', 'line': st.lineno, 'what': ast.unparse(st)[:80], 'source': new})
    return [m for m in out if m.get('source')]


def gen():
    os.makedirs(WORK, exist_ok=True)
    ms = []
    for rel in FILES:
        ms.extend(mutants_of(rel))
    seen = set()
    uniq = []
    for m in ms:
        h = hashlib.md5((m['file'] + m['source']).encode()).hexdigest()
        if h in seen:
            continue
        seen.add(h)
        m['id'] = len(uniq)
        uniq.append(m)
    for m in uniq:
        open(f'{WORK}/m{m["id"]}.py', 'w').write(m.pop('source'))
    json.dump(uniq, open(LIST, 'w'))
    print(len(uniq), 'mutants')
    from collections import Counter
    print(Counter(m['kind'] for m in uniq))


def _worker_dir():
    d = f'{WORK}/w{os.getpid()}'
    if not os.path.exists(d):
        shutil.copytree('/repo', d, ignore=shutil.ignore_patterns('.git', '.hypothesis', '__pycache__', '*.egg-info', 'docs'))
    return d


def _test_one(m):
    d = _worker_dir()
    target = f'{d}/src/hpl/{m["file"]}'
    orig = open(f'{SRC}/{m["file"]}').read()
    open(target, 'w').write(open(f'{WORK}/m{m["id"]}.py').read())
    try:
        env = dict(os.environ, PYTHONPATH=f'{d}/src', PYTHONDONTWRITEBYTECODE='1')
        try:
            r = subprocess.run(['/venv/bin/python', '-m', 'pytest', '-q', '-x', '-p', 'no:cacheprovider', '--timeout=300'], cwd=d, env=env, capture_output=True, text=True, timeout=900)
            rc = r.returncode
        except subprocess.TimeoutExpired:
            rc = 124
        shutil.rmtree(f'{d}/.hypothesis', ignore_errors=True)
        return m['id'], rc
    finally:
        open(target, 'w').write(orig)


def tests():
    ms = json.load(open(LIST))
    done = json.load(open(f'{WORK}/tests.json')) if os.path.exists(f'{WORK}/tests.json') else {}
    todo = [m for m in ms if str(m['id']) not in done]
    with ProcessPoolExecutor(16) as ex:
        for i, (mid, rc) in enumerate(ex.map(_test_one, todo, chunksize=4)):
            done[str(mid)] = rc
            if i % 100 == 0:
                json.dump(done, open(f'{WORK}/tests.json', 'w'))
                print(i, len(todo), flush=True)
    json.dump(done, open(f'{WORK}/tests.json', 'w'))
    print('survive tests:', sum(1 for v in done.values() if v == 0), 'of', len(done))


def _check_one(m):
    d = _worker_dir()
    target = f'{d}/src/hpl/{m["file"]}'
    orig = open(f'{SRC}/{m["file"]}').read()
    open(target, 'w').write(open(f'{WORK}/m{m["id"]}.py').read())
    res = {}
    try:
        for i in range(1, 21):
            p = f'C{i:02d}'
            env = dict(os.environ, HPLSA_EVIDENCE_DIR=f'{d}/.evidence')
            r = subprocess.run(['/verif/check', p, '--repo', d], capture_output=True, text=True, env=env)
            if r.returncode != 0:
                rules = sorted({l.split()[0] for l in r.stdout.splitlines() if l.startswith('  ') and not l.startswith('      ') and len(l.split()) > 1 and l.split()[0][0].isupper()})
                res[p] = (r.returncode, rules or [l[:120] for l in r.stdout.splitlines() if 'ANALYSIS-ERROR' in l][:1])
        return m['id'], res
    finally:
        open(target, 'w').write(orig)


def checks():
    ms = json.load(open(LIST))
    t = json.load(open(f'{WORK}/tests.json'))
    surv = [m for m in ms if t.get(str(m['id'])) == 0]
    done = json.load(open(f'{WORK}/checks.json')) if os.path.exists(f'{WORK}/checks.json') else {}
    todo = [m for m in surv if str(m['id']) not in done]
    with ProcessPoolExecutor(16) as ex:
        for i, (mid, res) in enumerate(ex.map(_check_one, todo, chunksize=2)):
            done[str(mid)] = res
            if i % 50 == 0:
                json.dump(done, open(f'{WORK}/checks.json', 'w'))
                print(i, len(todo), flush=True)
    json.dump(done, open(f'{WORK}/checks.json', 'w'))


def report():
    ms = json.load(open(LIST))
    t = json.load(open(f'{WORK}/tests.json'))
    c = json.load(open(f'{WORK}/checks.json')) if os.path.exists(f'{WORK}/checks.json') else {}
    surv = [m for m in ms if t.get(str(m['id'])) == 0]
    flagged = [m for m in surv if any(v[0] == 1 for v in c.get(str(m['id']), {}).values())]
    errored = [m for m in surv if str(m['id']) in c and not any(v[0] == 1 for v in c[str(m['id'])].values()) and any(v[0] == 2 for v in c[str(m['id'])].values())]
    silent = [m for m in surv if str(m['id']) in c and not c[str(m['id'])]]
    print(f'mutants {len(ms)}; killed by the tests {len(ms) - len(surv)}; survive the tests {len(surv)}')
    print(f'of the survivors: VIOLATION from some check {len(flagged)}; only ANALYSIS-ERROR {len(errored)}; silent {len(silent)}')
    from collections import Counter
    print('silent by file:', Counter(m['file'] for m in silent).most_common())
    print('silent by kind:', Counter(m['kind'] for m in silent).most_common())
    json.dump({'mutants': len(ms), 'survive_tests': len(surv), 'violation': len(flagged), 'analysis_error_only': len(errored), 'silent': len(silent),
               'silent_list': [{k: m[k] for k in ('id', 'file', 'kind', 'line', 'what')} for m in silent]}, open('/verif/tools/mutants_report.json', 'w'), indent=1)


if __name__ == '__main__':
    {'gen': gen, 'tests': tests, 'checks': checks, 'report': report}[sys.argv[1]]()

#!/venv/bin/python
"""tools/noalarm.py [variant...]: behaviour-preserving variants of /repo on which every check must stay silent (exit 0).
Variants are computed from the current tree by AST transformations / small hand-written refactorings."""
import ast, json, os, re, shutil, subprocess, sys, tempfile
from concurrent.futures import ThreadPoolExecutor

PROPS = [f'C{i:02d}' for i in range(1, 21)]
SRC = '/repo/src/hpl'


sys.path.insert(0, '/verif')
from hplsa.variants import VARIANTS  # noqa: E402


def one(name):
    d = tempfile.mkdtemp(prefix='hplsa_noalarm_')
    try:
        dst = os.path.join(d, 'repo')
        shutil.copytree('/repo', dst, ignore=shutil.ignore_patterns('.git', '.hypothesis', '__pycache__', '*.egg-info'))
        VARIANTS[name](os.path.join(dst, 'src', 'hpl'))
        # the variant must still import
        r = subprocess.run(['/venv/bin/python', '-c', 'import hpl.parser, hpl.rewrite, hpl.cli; hpl.parser.parse_property("globally: no a {x > 1 and not y}")'], capture_output=True, text=True, env=dict(os.environ, PYTHONPATH=os.path.join(dst, 'src')))
        res = {'import': r.returncode, 'alarms': {}}
        if r.returncode != 0:
            res['import_err'] = r.stderr[-400:]
        if os.environ.get('NOALARM_TESTS'):
            t = subprocess.run(['/venv/bin/python', '-m', 'pytest', '-q', '-p', 'no:cacheprovider', '--timeout=900', '-x'], cwd=dst, capture_output=True, text=True, env=dict(os.environ, PYTHONPATH=os.path.join(dst, 'src')))
            res['tests'] = t.stdout.strip().splitlines()[-1] if t.stdout.strip() else t.stderr[-200:]
        for p in PROPS:
            env = dict(os.environ, HPLSA_EVIDENCE_DIR=os.path.join(d, 'evidence'))
            rr = subprocess.run(['/verif/check', p, '--repo', dst], capture_output=True, text=True, env=env)
            if rr.returncode != 0:
                res['alarms'][p] = [l for l in rr.stdout.splitlines() if l.startswith('  ') and not l.startswith('      ') or 'ANALYSIS-ERROR' in l][:4]
        return name, res
    finally:
        shutil.rmtree(d, ignore_errors=True)


names = sys.argv[1:] or list(VARIANTS)
with ThreadPoolExecutor(5) as ex:
    out = dict(ex.map(one, names))
bad = 0
for n, res in out.items():
    print(f'== {n}: import={res["import"]} {res.get("tests", "")} alarms={len(res["alarms"])}')
    if res.get('import_err'):
        print('   ', res['import_err'])
    for p, lines in res['alarms'].items():
        bad += 1
        for l in lines:
            print(f'   {p}: {l.strip()[:260]}')
sys.exit(1 if bad else 0)

#!/venv/bin/python
"""tools/mutcheck.py <patch.diff> <Cxx> [<Cyy> ...] [--tier T]
Apply a patch to a scratch copy of /repo (outside /repo and /verif), run ./check --repo <copy>, remove the copy."""
import os, shutil, subprocess, sys, tempfile

def main():
    args = sys.argv[1:]
    tier = 'quick'
    if '--tier' in args:
        i = args.index('--tier'); tier = args[i + 1]; del args[i:i + 2]
    patch, props = args[0], args[1:] or [f'C{i:02d}' for i in range(1, 21)]
    d = tempfile.mkdtemp(prefix='hplsa_mut_')
    try:
        dst = os.path.join(d, 'repo')
        shutil.copytree('/repo', dst, ignore=shutil.ignore_patterns('.git', '.hypothesis', '__pycache__', '*.egg-info'))
        r = subprocess.run(['git', 'apply', '--unsafe-paths', '--directory', dst, os.path.abspath(patch)], capture_output=True, text=True, cwd='/')
        if r.returncode != 0:
            r = subprocess.run(['patch', '-p1', '-d', dst, '-i', os.path.abspath(patch)], capture_output=True, text=True)
            if r.returncode != 0:
                print('PATCH FAILED', r.stdout, r.stderr); return 3
        rc = 0
        for p in props:
            env = dict(os.environ, HPLSA_EVIDENCE_DIR=os.path.join(d, 'evidence'))
            r = subprocess.run(['/verif/check', p, '--tier', tier, '--repo', dst], capture_output=True, text=True, env=env)
            lines = [l for l in r.stdout.splitlines() if not l.startswith('RULE') or ' ok ' not in l]
            print(f'--- {p} exit={r.returncode}')
            print('\n'.join(lines[:30]))
            if r.stderr.strip():
                print(r.stderr[-2000:])
            rc = max(rc, r.returncode)
        return rc
    finally:
        shutil.rmtree(d, ignore_errors=True)

sys.exit(main())

#!/venv/bin/python
"""tools/runrules.py [--repo DIR] RULE... : run single rules and print findings (development aid)"""
import sys, os, traceback
sys.path.insert(0, '/verif'); sys.dont_write_bytecode = True
from hplsa.ctx import Ctx
from hplsa.driver import registry
from hplsa.model import AnalysisError
args = sys.argv[1:]
repo = None
if args and args[0] == '--repo':
    repo = args[1]; args = args[2:]
verbose = '-v' in args
args = [a for a in args if a != '-v']
ctx = Ctx(repo)
reg = registry()
for rid in args:
    try:
        res = reg[rid](ctx)
    except AnalysisError as e:
        print(f'{rid}: ANALYSIS-ERROR {e}')
        continue
    except Exception:
        traceback.print_exc(); continue
    print(f'{rid}: instances={res.instances} findings={len(res.findings)} counts={res.counts}')
    for f in res.findings:
        print(f'   FAIL {f.construct}: {f.what[:300]} [{f.where}]')
    for n in res.notes[:60]:
        print('   note', n)
    if verbose:
        for s in res.facts: print('   ok', s[:200])
